//! C01 / C10 BOUNDED cross-checks on the whole real decoders (they also exercise everything the
//! Verus decode units assume: check_llrs, hard_decisions, initialize, process_*).
//! Fixed matrices H1 (2x3 chain) and H2 (3x4 with a 4-cycle), symbolic f64 LLRs with |x| <= 1e30,
//! symbolic iteration limit up to 2.  Decoders are the generic `flooding::Decoder<A>` /
//! `horizontal_layered::Decoder<A>` over the arithmetic named; that `build_decoder` builds exactly
//! these types is C18's result, that `new()` builds the specified table is `c04_table__*`.
use crate::stubs::*;
use ldpc_toolbox::decoder::arithmetic::*;
use ldpc_toolbox::decoder::{flooding, horizontal_layered, DecoderOutput, LdpcDecoder};
use ldpc_toolbox::sparse::SparseMatrix;

pub fn h1() -> SparseMatrix {
    SparseMatrix::verif_from_lists(vec![vec![0, 1], vec![1, 2]], vec![vec![0], vec![0, 1], vec![1]])
}
pub const H1_ROWS: [&[usize]; 2] = [&[0, 1], &[1, 2]];

pub fn h2() -> SparseMatrix {
    SparseMatrix::verif_from_lists(
        vec![vec![0, 1, 2], vec![0, 1, 3], vec![2, 3]],
        vec![vec![0, 1], vec![0, 1], vec![0, 2], vec![1, 2]],
    )
}
pub const H2_ROWS: [&[usize]; 3] = [&[0, 1, 2], &[0, 1, 3], &[2, 3]];

fn parity_ok(rows: &[&[usize]], word: &[u8]) -> bool {
    let mut ok = true;
    for r in rows.iter() {
        let mut p = 0u8;
        for &c in r.iter() {
            p ^= word[c] & 1;
        }
        if p != 0 {
            ok = false;
        }
    }
    ok
}

fn any_llrs<const N: usize>() -> [f64; N] {
    let mut l = [0.0f64; N];
    for k in 0..N {
        let x: f64 = kani::any();
        kani::assume(x.abs() <= 1e30);
        l[k] = x;
    }
    l
}

/// the verdict / word / iteration-count relation of C01 for one decode call
pub fn c01_relation<D: LdpcDecoder, const N: usize>(mut dec: D, rows: &[&[usize]], max_limit: usize) {
    let llrs = any_llrs::<N>();
    let limit: usize = kani::any();
    kani::assume(limit <= max_limit);
    let res = dec.decode(&llrs, limit);
    let mut signs = [0u8; N];
    for k in 0..N {
        signs[k] = (llrs[k] <= 0.0) as u8;
    }
    let sign_ok = parity_ok(rows, &signs);
    match &res {
        Ok(o) => {
            assert!(o.codeword.len() == N);
            for k in 0..N {
                assert!(o.codeword[k] <= 1);
            }
            assert!(parity_ok(rows, &o.codeword));
            assert!(o.iterations <= limit);
            assert!((o.iterations == 0) == sign_ok);
            if o.iterations == 0 {
                for k in 0..N {
                    assert!(o.codeword[k] == signs[k]);
                }
            }
        }
        Err(o) => {
            assert!(o.codeword.len() == N);
            for k in 0..N {
                assert!(o.codeword[k] <= 1);
            }
            assert!(o.iterations == limit);
            assert!(!sign_ok);
            if limit >= 1 {
                assert!(!parity_ok(rows, &o.codeword));
            }
        }
    }
    kani::cover!(matches!(&res, Ok(o) if o.iterations == 0));
    kani::cover!(matches!(&res, Ok(o) if o.iterations >= 1));
    kani::cover!(res.is_err());
}

/// the same relation with a fixed iteration limit (the A-Min* decoders do not finish with a symbolic one)
pub fn c01_relation_fixed<D: LdpcDecoder, const N: usize>(mut dec: D, rows: &[&[usize]], limit: usize) {
    let llrs = any_llrs::<N>();
    let res = dec.decode(&llrs, limit);
    let mut signs = [0u8; N];
    for k in 0..N {
        signs[k] = (llrs[k] <= 0.0) as u8;
    }
    let sign_ok = parity_ok(rows, &signs);
    match &res {
        Ok(o) => {
            assert!(o.codeword.len() == N);
            assert!(parity_ok(rows, &o.codeword));
            assert!(o.iterations <= limit);
            assert!((o.iterations == 0) == sign_ok);
            if o.iterations == 0 {
                for k in 0..N {
                    assert!(o.codeword[k] == signs[k]);
                }
            }
        }
        Err(o) => {
            assert!(o.codeword.len() == N);
            assert!(o.iterations == limit);
            assert!(!sign_ok);
            if limit >= 1 {
                assert!(!parity_ok(rows, &o.codeword));
            }
        }
    }
    kani::cover!(matches!(&res, Ok(o) if o.iterations == 0));
    kani::cover!(matches!(&res, Ok(o) if o.iterations >= 1));
    kani::cover!(res.is_err());
}

fn same(a: &Result<DecoderOutput, DecoderOutput>, b: &Result<DecoderOutput, DecoderOutput>) -> bool {
    a == b
}

/// C10: call A then call B on one decoder returns, for B, what a fresh decoder returns
pub fn c10_history<D: LdpcDecoder, const N: usize>(mut used: D, mut fresh: D, la: usize, lb: usize) {
    let a = any_llrs::<N>();
    let b = any_llrs::<N>();
    let _ = used.decode(&a, la);
    let r1 = used.decode(&b, lb);
    let r2 = fresh.decode(&b, lb);
    assert!(same(&r1, &r2));
    kani::cover!(r2.is_err());
    kani::cover!(r2.is_ok());
}

/// contract of the (trusted in Verus) `check_llrs` and `hard_decisions`, through the guarded
/// wrappers: check_llrs == "every row has an even number of ones", hard_decisions == the 0/1 word.
/// BOUNDED: the 2x3 and 3x4 matrices with every bit pattern.
#[kani::proof]
#[kani::unwind(8)]
fn c01_check_llrs_small() {
    use ldpc_toolbox::decoder::verif_export::{check_llrs, hard_decisions};
    let b3: [bool; 3] = kani::any();
    let w3 = hard_decisions(&b3, |b| b);
    assert!(w3.len() == 3);
    for k in 0..3 {
        assert!(w3[k] == b3[k] as u8);
    }
    assert!(check_llrs(&h1(), &b3, |b| b) == parity_ok(&H1_ROWS, &w3));
    let b4: [bool; 4] = kani::any();
    let w4 = hard_decisions(&b4, |b| b);
    assert!(check_llrs(&h2(), &b4, |b| b) == parity_ok(&H2_ROWS, &w4));
    kani::cover!(check_llrs(&h2(), &b4, |b| b));
    kani::cover!(!check_llrs(&h1(), &b3, |b| b));
}

// (a 65 x 66 chain matrix - more checks than a machine word has bits - was tried: CBMC aborted after 32 min)

macro_rules! dec8 {
    ($ty:ident, $fl1:ident, $fl2:ident, $h10:ident, $h11:ident) => {
        #[kani::proof]
        #[kani::unwind(7)]
        fn $fl1() {
            c01_relation::<_, 3>(flooding::Decoder::new(h1(), <$ty>::verif_with_table(spec_table())), &H1_ROWS, 2);
        }
        #[kani::proof]
        #[kani::unwind(7)]
        fn $fl2() {
            c01_relation::<_, 4>(flooding::Decoder::new(h2(), <$ty>::verif_with_table(spec_table())), &H2_ROWS, 1);
        }
        #[kani::proof]
        #[kani::unwind(7)]
        fn $h10() {
            c10_history::<_, 3>(
                flooding::Decoder::new(h1(), <$ty>::verif_with_table(spec_table())),
                flooding::Decoder::new(h1(), <$ty>::verif_with_table(spec_table())),
                1,
                0,
            );
        }
        #[kani::proof]
        #[kani::unwind(7)]
        fn $h11() {
            c10_history::<_, 3>(
                flooding::Decoder::new(h1(), <$ty>::verif_with_table(spec_table())),
                flooding::Decoder::new(h1(), <$ty>::verif_with_table(spec_table())),
                1,
                1,
            );
        }
    };
}

macro_rules! hl8 {
    ($ty:ident, $fl1:ident, $fl2:ident, $h10:ident, $h11:ident) => {
        #[kani::proof]
        #[kani::unwind(7)]
        fn $fl1() {
            c01_relation::<_, 3>(horizontal_layered::Decoder::new(h1(), <$ty>::verif_with_table(spec_table())), &H1_ROWS, 2);
        }
        #[kani::proof]
        #[kani::unwind(7)]
        fn $fl2() {
            c01_relation::<_, 4>(horizontal_layered::Decoder::new(h2(), <$ty>::verif_with_table(spec_table())), &H2_ROWS, 1);
        }
        #[kani::proof]
        #[kani::unwind(7)]
        fn $h10() {
            c10_history::<_, 3>(
                horizontal_layered::Decoder::new(h1(), <$ty>::verif_with_table(spec_table())),
                horizontal_layered::Decoder::new(h1(), <$ty>::verif_with_table(spec_table())),
                1,
                0,
            );
        }
        #[kani::proof]
        #[kani::unwind(7)]
        fn $h11() {
            c10_history::<_, 3>(
                horizontal_layered::Decoder::new(h1(), <$ty>::verif_with_table(spec_table())),
                horizontal_layered::Decoder::new(h1(), <$ty>::verif_with_table(spec_table())),
                1,
                1,
            );
        }
    };
}

include!("c01_names.rs");
include!("c01_amin.rs");

// a concrete playback test printed by Kani for a failing harness of this module is replayed from here
include!(concat!(env!("VERIF_KANI_GEN"), "/playback_c01.rs"));
