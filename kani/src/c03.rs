//! C03 (BOUNDED): both schedules are textbook belief propagation for any arithmetic.
//! A checker-supplied exact integer min-sum arithmetic is plugged into the real generic
//! `flooding::Decoder<A>` and `horizontal_layered::Decoder<A>`; the result must equal that of an
//! executable textbook specification written here, for all symbolic integer LLRs in [-7, 7] on
//! H1 (2x3) and H2 (3x4), iteration limit up to 2.
use crate::c01::{h1, h2, H1_ROWS, H2_ROWS};
use ldpc_toolbox::decoder::arithmetic::DecoderArithmetic;
use ldpc_toolbox::decoder::{flooding, horizontal_layered, DecoderOutput, LdpcDecoder, Message, SentMessage};

/// exact min-sum over i32, no scratch state, no saturation
#[derive(Debug, Clone, Default)]
pub struct ExactMinSum {}

fn minsum_others(vals: &[i32], skip: usize) -> i32 {
    let mut neg = false;
    let mut mag = i32::MAX;
    for (j, &v) in vals.iter().enumerate() {
        if j != skip {
            if v < 0 {
                neg = !neg;
            }
            if v.abs() < mag {
                mag = v.abs();
            }
        }
    }
    if neg { -mag } else { mag }
}

impl DecoderArithmetic for ExactMinSum {
    type Llr = i32;
    type CheckMessage = i32;
    type VarMessage = i32;
    type VarLlr = i32;
    fn input_llr_quantize(&self, llr: f64) -> i32 {
        llr as i32
    }
    fn llr_hard_decision(&self, llr: i32) -> bool {
        llr <= 0
    }
    fn llr_to_var_message(&self, llr: i32) -> i32 {
        llr
    }
    fn llr_to_var_llr(&self, llr: i32) -> i32 {
        llr
    }
    fn var_llr_to_llr(&self, v: i32) -> i32 {
        v
    }
    fn send_check_messages<F>(&mut self, var_messages: &[Message<i32>], mut send: F)
    where
        F: FnMut(SentMessage<i32>),
    {
        let mut vals = [0i32; 4];
        for (k, m) in var_messages.iter().enumerate() {
            vals[k] = m.value;
        }
        let n = var_messages.len();
        for (k, m) in var_messages.iter().enumerate() {
            send(SentMessage { dest: m.source, value: minsum_others(&vals[..n], k) });
        }
    }
    fn send_var_messages<F>(&mut self, input_llr: i32, check_messages: &[Message<i32>], mut send: F) -> i32
    where
        F: FnMut(SentMessage<i32>),
    {
        let mut total = input_llr;
        for m in check_messages.iter() {
            total += m.value;
        }
        for m in check_messages.iter() {
            send(SentMessage { dest: m.source, value: total - m.value });
        }
        total
    }
    fn update_check_messages_and_vars(&mut self, check_messages: &mut [SentMessage<i32>], vars: &mut [i32]) {
        let n = check_messages.len();
        let mut ext = [0i32; 4];
        for (k, m) in check_messages.iter().enumerate() {
            ext[k] = vars[m.dest] - m.value;
        }
        for (k, m) in check_messages.iter_mut().enumerate() {
            let r = minsum_others(&ext[..n], k);
            m.value = r;
            vars[m.dest] = ext[k] + r;
        }
    }
}

fn parity_ok<const N: usize>(rows: &[&[usize]], llr: &[i32; N]) -> bool {
    let mut ok = true;
    for r in rows.iter() {
        let mut p = false;
        for &c in r.iter() {
            if llr[c] <= 0 {
                p = !p;
            }
        }
        if p {
            ok = false;
        }
    }
    ok
}

fn word<const N: usize>(llr: &[i32; N]) -> Vec<u8> {
    llr.iter().map(|&x| (x <= 0) as u8).collect()
}

/// textbook flooding: all check-to-variable messages from the previous variable-to-check
/// messages, then all variable updates, syndrome tested after every full iteration
fn textbook_flooding<const N: usize, const M: usize>(rows: &[&[usize]], ch: &[i32; N], limit: usize) -> Result<DecoderOutput, DecoderOutput> {
    if parity_ok(rows, ch) {
        return Ok(DecoderOutput { codeword: word(ch), iterations: 0 });
    }
    // v2c[r][k]: message from variable rows[r][k] to check r ; c2v likewise
    let mut v2c = [[0i32; 4]; M];
    let mut c2v = [[0i32; 4]; M];
    for (r, row) in rows.iter().enumerate() {
        for (k, &c) in row.iter().enumerate() {
            v2c[r][k] = ch[c];
        }
    }
    let mut out = *ch;
    let mut it = 1;
    while it <= limit {
        for (r, row) in rows.iter().enumerate() {
            for k in 0..row.len() {
                c2v[r][k] = minsum_others(&v2c[r][..row.len()], k);
            }
        }
        for v in 0..N {
            let mut total = ch[v];
            for (r, row) in rows.iter().enumerate() {
                for (k, &c) in row.iter().enumerate() {
                    if c == v {
                        total += c2v[r][k];
                    }
                }
            }
            out[v] = total;
            for (r, row) in rows.iter().enumerate() {
                for (k, &c) in row.iter().enumerate() {
                    if c == v {
                        v2c[r][k] = total - c2v[r][k];
                    }
                }
            }
        }
        if parity_ok(rows, &out) {
            return Ok(DecoderOutput { codeword: word(&out), iterations: it });
        }
        it += 1;
    }
    Err(DecoderOutput { codeword: word(&out), iterations: limit })
}

/// textbook layered: checks one by one in row order with immediate variable updates
fn textbook_layered<const N: usize, const M: usize>(rows: &[&[usize]], ch: &[i32; N], limit: usize) -> Result<DecoderOutput, DecoderOutput> {
    if parity_ok(rows, ch) {
        return Ok(DecoderOutput { codeword: word(ch), iterations: 0 });
    }
    let mut q = *ch;
    let mut rcv = [[0i32; 4]; M];
    let mut it = 1;
    while it <= limit {
        for (r, row) in rows.iter().enumerate() {
            let mut ext = [0i32; 4];
            for (k, &c) in row.iter().enumerate() {
                ext[k] = q[c] - rcv[r][k];
            }
            for (k, &c) in row.iter().enumerate() {
                let m = minsum_others(&ext[..row.len()], k);
                rcv[r][k] = m;
                q[c] = ext[k] + m;
            }
        }
        if parity_ok(rows, &q) {
            return Ok(DecoderOutput { codeword: word(&q), iterations: it });
        }
        it += 1;
    }
    Err(DecoderOutput { codeword: word(&q), iterations: limit })
}

fn inputs<const N: usize>() -> ([i32; N], [f64; N], usize) {
    inputs_l::<N>(2)
}

fn inputs_l<const N: usize>(max_limit: usize) -> ([i32; N], [f64; N], usize) {
    let mut ch = [0i32; N];
    let mut f = [0.0f64; N];
    for k in 0..N {
        let v: i8 = kani::any();
        kani::assume(v >= -7 && v <= 7);
        ch[k] = v as i32;
        f[k] = v as f64;
    }
    let limit: usize = kani::any();
    kani::assume(limit <= max_limit);
    (ch, f, limit)
}

#[kani::proof]
#[kani::unwind(8)]
fn c03_flooding_h1() {
    let (ch, f, limit) = inputs::<3>();
    let mut d = flooding::Decoder::new(h1(), ExactMinSum {});
    let got = d.decode(&f, limit);
    let want = textbook_flooding::<3, 2>(&H1_ROWS, &ch, limit);
    assert!(got == want);
    kani::cover!(matches!(&got, Ok(o) if o.iterations == 0));
    kani::cover!(matches!(&got, Ok(o) if o.iterations >= 1) || got.is_err());
}

#[kani::proof]
#[kani::unwind(8)]
fn c03_flooding_h2() {
    let (ch, f, limit) = inputs::<4>();
    let mut d = flooding::Decoder::new(h2(), ExactMinSum {});
    let got = d.decode(&f, limit);
    let want = textbook_flooding::<4, 3>(&H2_ROWS, &ch, limit);
    assert!(got == want);
    kani::cover!(matches!(&got, Ok(o) if o.iterations == 0));
    kani::cover!(matches!(&got, Ok(o) if o.iterations >= 1) || got.is_err());
}

#[kani::proof]
#[kani::unwind(8)]
fn c03_layered_h1() {
    let (ch, f, limit) = inputs::<3>();
    let mut d = horizontal_layered::Decoder::new(h1(), ExactMinSum {});
    let got = d.decode(&f, limit);
    let want = textbook_layered::<3, 2>(&H1_ROWS, &ch, limit);
    assert!(got == want);
    kani::cover!(matches!(&got, Ok(o) if o.iterations == 0));
    kani::cover!(matches!(&got, Ok(o) if o.iterations >= 1) || got.is_err());
}

#[kani::proof]
#[kani::unwind(8)]
fn c03_layered_h2() {
    let (ch, f, limit) = inputs::<4>();
    let mut d = horizontal_layered::Decoder::new(h2(), ExactMinSum {});
    let got = d.decode(&f, limit);
    let want = textbook_layered::<4, 3>(&H2_ROWS, &ch, limit);
    assert!(got == want);
    kani::cover!(matches!(&got, Ok(o) if o.iterations == 0));
    kani::cover!(matches!(&got, Ok(o) if o.iterations >= 1) || got.is_err());
}

/// the 2x3 matrix with UNSORTED adjacency lists (SparseMatrix keeps insertion order): rows [1,0] and
/// [2,1], column 1 lists its checks as [1,0]; the decoders must not depend on the order
fn h1_unsorted() -> ldpc_toolbox::sparse::SparseMatrix {
    ldpc_toolbox::sparse::SparseMatrix::verif_from_lists(vec![vec![1, 0], vec![2, 1]], vec![vec![0], vec![1, 0], vec![1]])
}

#[kani::proof]
#[kani::unwind(8)]
fn c03_flooding_h1u_l1() {
    let (ch, f, limit) = inputs_l::<3>(1);
    let mut d = flooding::Decoder::new(h1_unsorted(), ExactMinSum {});
    let got = d.decode(&f, limit);
    let want = textbook_flooding::<3, 2>(&H1_ROWS, &ch, limit);
    assert!(got == want);
    kani::cover!(matches!(&got, Ok(o) if o.iterations == 0));
    kani::cover!(matches!(&got, Ok(o) if o.iterations >= 1) || got.is_err());
}

#[kani::proof]
#[kani::unwind(8)]
fn c03_layered_h1u() {
    let (ch, f, limit) = inputs::<3>();
    let mut d = horizontal_layered::Decoder::new(h1_unsorted(), ExactMinSum {});
    let got = d.decode(&f, limit);
    // the layered result does not depend on the order inside a row for min-sum
    let want = textbook_layered::<3, 2>(&H1_ROWS, &ch, limit);
    assert!(got == want);
    kani::cover!(matches!(&got, Ok(o) if o.iterations == 0));
    kani::cover!(matches!(&got, Ok(o) if o.iterations >= 1) || got.is_err());
}

/// quick-tier flooding variant: exactly one iteration allowed (limit = 1), LLRs in [-3, 3]
#[kani::proof]
#[kani::unwind(8)]
fn c03_flooding_h1_one() {
    let mut ch = [0i32; 3];
    let mut f = [0.0f64; 3];
    for k in 0..3 {
        let v: i8 = kani::any();
        kani::assume(v >= -3 && v <= 3);
        ch[k] = v as i32;
        f[k] = v as f64;
    }
    let mut d = flooding::Decoder::new(h1_unsorted(), ExactMinSum {});
    let got = d.decode(&f, 1);
    let want = textbook_flooding::<3, 2>(&H1_ROWS, &ch, 1);
    assert!(got == want);
    kani::cover!(matches!(&got, Ok(o) if o.iterations == 0));
    kani::cover!(matches!(&got, Ok(o) if o.iterations >= 1) || got.is_err());
}

/// layered schedule with exactly two iterations allowed on the 3-row matrix (a sweep order other
/// than row order shows from the second iteration on), LLRs in [-3, 3]
#[kani::proof]
#[kani::unwind(8)]
fn c03_layered_h2_two() {
    let mut ch = [0i32; 4];
    let mut f = [0.0f64; 4];
    for k in 0..4 {
        let v: i8 = kani::any();
        kani::assume(v >= -3 && v <= 3);
        ch[k] = v as i32;
        f[k] = v as f64;
    }
    let mut d = horizontal_layered::Decoder::new(h2(), ExactMinSum {});
    let got = d.decode(&f, 2);
    let want = textbook_layered::<4, 3>(&H2_ROWS, &ch, 2);
    assert!(got == want);
    kani::cover!(matches!(&got, Ok(o) if o.iterations == 2));
    kani::cover!(matches!(&got, Ok(o) if o.iterations <= 1) || got.is_err());
}

/// quick-tier variants: iteration limit <= 1
#[kani::proof]
#[kani::unwind(8)]
fn c03_flooding_h1_l1() {
    let (ch, f, limit) = inputs_l::<3>(1);
    let mut d = flooding::Decoder::new(h1(), ExactMinSum {});
    let got = d.decode(&f, limit);
    let want = textbook_flooding::<3, 2>(&H1_ROWS, &ch, limit);
    assert!(got == want);
    kani::cover!(matches!(&got, Ok(o) if o.iterations == 0));
    kani::cover!(matches!(&got, Ok(o) if o.iterations >= 1) || got.is_err());
}

#[kani::proof]
#[kani::unwind(8)]
fn c03_layered_h2_l1() {
    let (ch, f, limit) = inputs_l::<4>(1);
    let mut d = horizontal_layered::Decoder::new(h2(), ExactMinSum {});
    let got = d.decode(&f, limit);
    let want = textbook_layered::<4, 3>(&H2_ROWS, &ch, limit);
    assert!(got == want);
    kani::cover!(matches!(&got, Ok(o) if o.iterations == 0));
    kani::cover!(matches!(&got, Ok(o) if o.iterations >= 1) || got.is_err());
}

// a concrete playback test printed by Kani for a failing harness of this module is replayed from here
include!(concat!(env!("VERIF_KANI_GEN"), "/playback_c03.rs"));
