"""Per-property configuration: which Verus units and Kani harnesses decide it."""

# Verus unit: unit name, template (relative to /verif/specs), rlimit, canary?
# `defines` select @ifdef sections of the template.

DVBS2_CODES = ["R1_4", "R1_3", "R2_5", "R1_2", "R3_5", "R2_3", "R3_4", "R4_5", "R5_6", "R8_9", "R9_10",
               "R1_4short", "R1_3short", "R2_5short", "R1_2short", "R3_5short", "R2_3short", "R3_4short",
               "R4_5short", "R5_6short", "R8_9short"]

FL_FRAMES = [{"file": "src/decoder/flooding.rs", "item": "impl Decoder::" + n, "name": n}
             for n in ["initialize", "process_check_nodes", "process_variable_nodes"]]
HL_FRAMES = [{"file": "src/decoder/horizontal_layered.rs", "item": "impl Decoder::" + n, "name": n}
             for n in ["initialize", "process_check_nodes"]]
DECODE_ASSUMPTIONS = [
    "check_llrs and hard_decisions trusted (external_body): existential contracts over the closure's ensures; parity_ok uninterpreted",
    "initialize / process_check_nodes / process_variable_nodes trusted (external_body); their frames are derived from the source's syntactic write sets",
    "DecoderArithmetic: llr_hard_decision and var_llr_to_llr are functions of (rules(), argument); rules() is preserved by the &mut methods",
    "f64 `x <= 0.0` is a function of x (axiom_f64_le_functional); floats are otherwise uninterpreted",
    "max_iterations < usize::MAX (RangeInclusive ghost iterator)",
]

from names import NAMES
from c15_names import PATTERNS

I8_TYPES = [n for n in NAMES if "i8" in n and not n.startswith("HL")]


def _h(name, **kw):
    d = {"harness": name, "timeout": 900, "mem_gb": 6}
    d.update(kw)
    return d


FLOAT_TYPES = ["Phif64", "Phif32", "Tanhf64", "Tanhf32", "Minstarapproxf64", "Minstarapproxf32", "Aminstarf64", "Aminstarf32"]
C05_QUICK = ([_h(f"c05::c05_quantize__{t}") for t in I8_TYPES] + [_h(f"c05::c05_clip__{t}") for t in I8_TYPES]
             + [_h(f"c05::c05_var8__{t}", bound="degrees 1..=8 (the thorough tier covers 1..=200)") for t in I8_TYPES]
             + [_h(f"c05::c05_layered2__{t}", bound="check degree 2, |variable LLR| <= 508") for t in I8_TYPES]
             + [_h(f"c05::c05_layered3__{t}", bound="check degree 3, |variable LLR| <= 508") for t in I8_TYPES])
C05_THOROUGH = ([h for h in C05_QUICK if "var8" not in h["harness"]]
                + [_h(f"c05::c05_layered4__{t}", timeout=2400, bound="check degree 4, |variable LLR| <= 508") for t in I8_TYPES]
                + [_h(f"c04f::c05f_var__{t}", timeout=5400, mem_gb=5, bound="float variable rule, degrees 1..=3, |x| <= 1e30 (left-to-right sum)") for t in FLOAT_TYPES]
                + [_h(f"c05::c05_var32__{t}", timeout=3600, mem_gb=8, bound="degrees 1..=32") for t in I8_TYPES]
                + [_h(f"c05::c05_var100__{t}", timeout=7200, mem_gb=14, cap_gb=40,
                      bound="degrees 1..=100 for the four Jones x degree-one shapes of the shared macro body (1..=200 did not finish)")
                   for t in ["Minstarapproxi8", "Minstarapproxi8Jones", "Minstarapproxi8Deg1Clip", "Aminstari8JonesDeg1Clip"]])
C04_QUICK = ([_h(f"c04::c04_table__{t}") for t in I8_TYPES] + [_h(f"c04::c04_check2__{t}") for t in I8_TYPES]
             + [_h(f"c04::c04_check3__{t}") for t in I8_TYPES])
C04_QUICK = C04_QUICK + [_h(f"c04f::c04f_check{d}__{t}", bound="float type: count" + ("" if t.startswith("Aminstar") else ", sign") + (", magnitude" if t.startswith("Minstar") else "") + " under axiomatised tanh/ln/atanh/exp/ln_1p, |x| <= 1e30")
                         for t in FLOAT_TYPES for d in (2, 3)]
C04_THOROUGH = C04_QUICK + [_h(f"c04::c04_check{d}__{t}", bound=f"degree {d} (generic clauses: count, sign, magnitude bound, hard limiting)", timeout=2400)
                            for t in I8_TYPES for d in (4, 5, 6, 8)]
# quick tier (must stay far below the 900 s cap of `vp check`, which runs on a shared machine): print/parse
# through Display and FromStr and the clap value name for all 36 names, non-member strings, and the concrete
# decoder type for the 12 HL names plus one flooding name per arithmetic family; the thorough tier adds clap's
# own parser and the type harness for every name
C18_TYPE_QUICK = [n for n in NAMES if n.startswith("HL")] + ["Phif64", "Tanhf32", "Minstarapproxf64", "Minstarapproxi8Jones",
                                                            "Aminstarf32", "Aminstari8PartialHardLimitDeg1Clip"]
C18_QUICK = ([_h("c18::c18_reject_nonmembers_fromstr", timeout=850, mem_gb=6)]
             + [_h(f"c18::c18_type__{n}", mem_gb=2.5, timeout=800) for n in C18_TYPE_QUICK]
             + [_h(f"c18::c18_print_fromstr__{n}", mem_gb=2.5, timeout=800) for n in NAMES]
             + [_h(f"c18::c18_clap__{n}", mem_gb=2, timeout=800) for n in NAMES])
C18_THOROUGH = ([_h("c18::c18_reject_nonmembers_fromstr", timeout=1800, mem_gb=6)]
                + [_h(f"c18::c18_type__{n}", mem_gb=2.5, timeout=1800) for n in NAMES]
                + [_h(f"c18::c18_print_parse__{n}", mem_gb=2.5, timeout=1800) for n in NAMES]
                + [_h(f"c18::c18_clap__{n}", mem_gb=2, timeout=1800) for n in NAMES])
C15_IL_QUICK = ["2x3", "4x2"]
C15_IL_ALL = ["1x1", "1x3", "2x2", "2x3", "3x2", "3x3", "2x4", "4x2", "3x1", "5x1", "1x9", "9x1"]
C15_QUICK = ([_h(f"c15::c15_interleave_{s}", timeout=1500, mem_gb=8, bound=f"shape columns x rows = {s}") for s in C15_IL_QUICK]
             + [_h(f"c15::{n}", mem_gb=6, bound="one pattern, block size as named") for n, nd in PATTERNS if "_p4_" not in n or n.endswith("_b1")])
C15_THOROUGH = ([_h(f"c15::c15_interleave_{s}", timeout=2400, mem_gb=8, bound=f"shape columns x rows = {s}") for s in C15_IL_ALL]
                + [_h(f"c15::{n}", mem_gb=6, bound="one pattern, block size as named") for n, nd in PATTERNS])
MSA_FL = [n for n in NAMES if n.startswith("Minstarapproxi8")]
MSA_HL = [n for n in NAMES if n.startswith("HLMinstarapproxi8")]
_DEC_BOUND = "BOUNDED cross-check: fixed 2x3 (H1) / 3x4 (H2) matrix, all f64 LLRs with |x| <= 1e30, limit <= 2 (H1) / 1 (H2)"
C01_KANI_QUICK = ([_h(f"c01::c01_h1__{n}", timeout=2400, mem_gb=5, bound=_DEC_BOUND) for n in ["Minstarapproxi8", "HLMinstarapproxi8"]]
                  + [_h("c01::c01_check_llrs_small", bound="contract of check_llrs / hard_decisions (trusted in Verus) on the 2x3 and 3x4 matrices, every bit pattern")])
C01_KANI_THOROUGH = ([_h("c01::c01_check_llrs_small", bound="contract of check_llrs / hard_decisions (trusted in Verus) on the 2x3 and 3x4 matrices, every bit pattern")]
                     + [_h(f"c01::c01_h1__{n}", timeout=3600, mem_gb=5, bound=_DEC_BOUND) for n in MSA_FL + MSA_HL]
                     + [_h(f"c01::c01_h2__{n}", timeout=3600, mem_gb=6, bound=_DEC_BOUND) for n in ["Minstarapproxi8", "HLMinstarapproxi8"]])
_HIST_BOUND = "BOUNDED: two-call histories on the fixed 2x3 matrix, limits (first, second) as named, all f64 LLRs with |x| <= 1e30"
_SCR_B = "arithmetic scratch buffers, SURROGATE transcendental functions (under abstraction, not a proof), degree 3 then degree 2, |x| <= 100"
C10_SCRATCH = [_h(f"c04f::c10_scratch__{t}", timeout=900, bound=_SCR_B) for t in ["Minstarapproxf64", "Minstarapproxf32", "Tanhf64", "Tanhf32"]]
# calibrated in the thorough tier only (3-25 min); the Phif, Aminstarf64, Tanhf64-layered and Aminstarf32-layered
# scratch harnesses did not finish in 30 min and are not registered
C10_SCRATCH_THOROUGH = C10_SCRATCH + [_h(f"c04f::{h}", timeout=3600, bound=_SCR_B) for h in
                                      ["c10_scratch_layered__Tanhf32", "c10_scratch_layered__Minstarapproxf32",
                                       "c10_scratch_layered__Minstarapproxf64", "c10_scratch__Aminstarf32"]]
C10_SCRATCH8 = [_h(f"c05::c10_scratch8__{t}", bound="8-bit arithmetic scratch buffer: degree 3 then degree 2, every value in range (complete for these degrees)") for t in I8_TYPES]
C10_KANI_QUICK = [_h(f"c01::{h}", timeout=3000, mem_gb=5, bound=_HIST_BOUND) for h in
                  ["c10_h1_1_0__Minstarapproxi8", "c10_h1_1_1__Minstarapproxi8"]] + C10_SCRATCH + C10_SCRATCH8
# the layered two-call harnesses need 15-25 min and > 10 GB each: thorough tier only
C10_KANI_THOROUGH = C10_SCRATCH_THOROUGH + C10_SCRATCH8 + [_h(f"c01::c10_h1_{p}__{n}", timeout=5400, mem_gb=(16 if n.startswith("HL") else 6), cap_gb=40, bound=_HIST_BOUND)
                                   for n in MSA_FL + MSA_HL for p in ["1_0", "1_1"]]
_C03_B = "BOUNDED: checker-supplied exact integer min-sum arithmetic, integer LLRs in [-7,7], fixed matrix, limit <= "
C03_KANI = [_h("c03::c03_flooding_h1_one", timeout=800, mem_gb=5, bound="BOUNDED: checker-supplied exact min-sum arithmetic, integer LLRs in [-3,3], 2x3 matrix with unsorted adjacency lists, limit = 1"),
            _h("c03::c03_layered_h1", timeout=800, mem_gb=5, bound=_C03_B + "2 (2x3)"),
            _h("c03::c03_layered_h1u", timeout=800, mem_gb=5, bound=_C03_B + "2 (2x3 with unsorted adjacency lists)"),
            _h("c03::c03_layered_h2_two", timeout=800, mem_gb=5, bound="BOUNDED: checker-supplied exact min-sum arithmetic, integer LLRs in [-3,3], 3x4 matrix, limit = 2")]
C03_KANI_THOROUGH = [_h(f"c03::{h}", timeout=7200, mem_gb=8, bound=_C03_B + "2")
                     for h in ["c03_layered_h2_two", "c03_flooding_h1_one", "c03_flooding_h1", "c03_layered_h1", "c03_layered_h2", "c03_flooding_h1u_l1", "c03_layered_h1u",
                               "c03_flooding_h1_l1", "c03_layered_h2_l1"]]
# c03_flooding_h2 (3x4 matrix, limit 2) did not finish in 50 min: not registered
AMIN_FL = [n for n in NAMES if n.startswith("Aminstari8")]
AMIN_HL = [n for n in NAMES if n.startswith("HLAminstari8")]
_FIX_BOUND = "BOUNDED cross-check: A-Min* 8-bit decoder, fixed 2x3 matrix, all f64 LLRs with |x| <= 1e30, iteration limit fixed as named"
C01_KANI_QUICK = C01_KANI_QUICK + [_h("c01::c01_h1_l1__Aminstari8", timeout=800, mem_gb=5, bound=_FIX_BOUND),
                                   _h("c01::c01_h1_l2__HLAminstari8", timeout=800, mem_gb=5, bound=_FIX_BOUND)]
C01_KANI_THOROUGH = C01_KANI_THOROUGH + [_h(f"c01::c01_h1_l{l}__{n}", timeout=3600, mem_gb=5, bound=_FIX_BOUND) for n in AMIN_FL + AMIN_HL for l in (1, 2)]
C10_KANI_QUICK = C10_KANI_QUICK + [_h("c01::c10_h1_1_1__HLAminstari8", timeout=800, mem_gb=5, bound=_HIST_BOUND)]
C10_KANI_THOROUGH = (C10_KANI_THOROUGH
                     + [_h(f"c01::c10_h1_1_0__{n}", timeout=3600, mem_gb=6, bound=_HIST_BOUND) for n in AMIN_FL + AMIN_HL]
                     + [_h(f"c01::c10_h1_1_1__{n}", timeout=5400, mem_gb=6, bound=_HIST_BOUND) for n in ["Aminstari8"] + AMIN_HL])
C17_KANI = [_h(f"c17::{n}", mem_gb=5, timeout=1500,
               bound="BOUNDED stand-in: one concrete scenario on a fixed 2x3 or 3x2 matrix; never counted as proved")
            for n in ["c17_views_fixed", "c17_set_row_wide_repeat", "c17_set_row_wide_other", "c17_set_row_tall_empty",
                      "c17_set_col_wide_repeat", "c17_set_col_tall_same", "c17_insert_row_wide_mixed", "c17_insert_row_tall_repeat",
                      "c17_insert_col_wide_new", "c17_insert_col_tall_repeat", "c17_set_col_wide_desc", "c17_insert_row_tall_desc",
                      "c17_set_row_wide_empty", "c17_set_col_tall_empty", "c17_insert_empty_wide"]]
C14_ALL = [_h("c14::c14_bpsk_sign_structure"), _h("c14::c14_bpsk_roundtrip"), _h("c14::c14_psk8_constellation"),
           _h("c14::c14_psk8_noiseless_hard_decisions", bound="sigma = 0.1; max* axiomatised (max <= max* <= max + ln 2)"),
           _h("c14::c14_bpsk_scale_points", bound="concrete points: sigma in {0.5, 2}, five samples"),
           _h("c14::c14_psk8_scale_points", bound="concrete points: two (sample, sigma) pairs; max* axiomatised")]

PROPS = {
    "C17": {
        "level": "proof",
        "title": "Sparse-matrix editing behaves like a set of (row, column) positions",
        "verus": [
            {"unit": "sparse", "template": "sparse/unit.rs.in", "rlimit": 60, "canary": True},
        ],
        "kani": {"quick": C17_KANI, "thorough": C17_KANI},
        "witness": "c17",
        "assumptions": [
            "vstd specs of Vec/slice/Option (push, len, index, clear, iter)",
            "assume_specification for <[T]>::contains and Vec::retain (over the closure's ensures)",
            "SparseMatrix::new trusted (iterator adaptors; postcondition: empty, right shape)",
            "verif_borrow_usize (trusted wrapper, body `*s.borrow()`): its result is the uninterpreted bval(x); Borrow<usize> for usize / &usize is the identity",
            "insert_row / insert_col: verified on the reference desugaring of their `for` loop (N7); termination not proved (the loop ends when the caller's iterator ends)",
            "usize is 64-bit",
        ],
    },
    "C06": {
        "level": "proof",
        "title": "DVB-S2 parity-check matrices conform to ETSI EN 302 307-1",
        "verus": [
            {"unit": "dvbs2_dims", "template": "dvbs2/unit_dims.rs.in", "rlimit": 60, "canary": True},
            {"unit": "dvbs2_h", "template": "dvbs2/unit_h.rs.in", "rlimit": 100, "canary": True, "defines": ["SPARSE_VERIFIED_ELSEWHERE"]},
        ] + [
            # one unit per code: the whole real `addresses()` body is verified, the
            # postcondition is asked for this code's arm only (shape, range, no repeats)
            {"unit": f"dvbs2_addr_{c}", "template": "dvbs2/unit_addr.rs.in", "rlimit": 400, "threads": 1,
             "defines": ["RANGE", "NODUP", "PINNED", f"PIN_{c}"], "subst": {"CODE": c},
             "extra": ["--verify-function", "Code::addresses", "--verify-root"],
             "canary": c == "R8_9short"}
            for c in DVBS2_CODES
        ],
        "kani": {"quick": [], "thorough": []},
        "witness": "c06",
        "assumptions": [
            "the standard's tables (n, k, q, degree profile) as transcribed in specs/dvbs2/std.rs.in",
            "SparseMatrix::new trusted (external_body) with the contract of specs/sparse; SparseMatrix::insert_col enters with the contract of specs/sparse/bulk_trusted.rs.in, whose text is the one verified against the body in the C17 unit (specs/sparse/bulk_verified.rs.in)",
            "SparseMatrix::insert and the other sparse operations enter these units with their contracts only; their bodies are verified against the same contracts by the C17 unit (modular: a caller is checked against the callee's contract, not its body)",
            "Borrow<usize> for usize is the identity (axiom_bval_usize)",
            "Code::addresses() returns the same table on every call (uninterpreted addr_table); its shape/range/no-repeat facts are proved per code",
            "usize is 64-bit",
        ],
    },
    "C07": {
        "level": "proof",
        "title": "CCSDS AR4JA parity-check matrices conform to CCSDS 131.0-B",
        "verus": [
            {"unit": "ccsds", "template": "ccsds/unit.rs.in", "rlimit": 800, "canary": True, "timeout": 2400, "threads": 8, "defines": ["SPARSE_VERIFIED_ELSEWHERE"]},
            {"unit": "ccsds_c2", "template": "ccsds/unit_c2.rs.in", "rlimit": 200, "canary": True, "timeout": 1200, "defines": ["SPARSE_VERIFIED_ELSEWHERE"]},
        ],
        "kani": {"quick": [], "thorough": []},
        "witness": "c07",
        "assumptions": [
            "Blue Book Table 7-2 (M), theta_k and Table 7-1 (C2 circulant offsets) as transcribed in specs/ccsds/",
            "N6 normalisation of the two `for (i, x) in E.iter().enumerate()` loops of C2Code::h into index loops",
            "phi_k(j, M) pinned to the tree the check was written against (specs/ccsds/phi_pinned.rs.in), not independently transcribed",
            "SparseMatrix::new trusted (external_body)",
            "usize is 64-bit",
        ],
    },
    "C01": {
        "level": "proof",
        "title": "A decoder never reports success on a word that is not a codeword",
        "verus": [
            {"unit": "flooding_c01", "template": "decode/flooding.rs.in", "defines": ["C01"], "rlimit": 100, "canary": True,
             "frames": FL_FRAMES},
            {"unit": "hl_c01", "template": "decode/hl.rs.in", "defines": ["C01"], "rlimit": 100, "canary": True,
             "frames": HL_FRAMES},
        ],
        "kani": {"quick": C01_KANI_QUICK, "thorough": C01_KANI_THOROUGH},
        "witness": "c01",
        "assumptions": DECODE_ASSUMPTIONS,
    },
    "C10": {
        "level": "proof",
        "title": "A decoder object carries no state from one frame to the next",
        "verus": [
            {"unit": "flooding_c10", "template": "decode/flooding.rs.in", "defines": ["C10"], "rlimit": 100, "canary": True,
             "frames": FL_FRAMES},
            {"unit": "hl_c10", "template": "decode/hl.rs.in", "defines": ["C10"], "rlimit": 100, "canary": True,
             "frames": HL_FRAMES},
        ],
        "kani": {"quick": C10_KANI_QUICK, "thorough": C10_KANI_THOROUGH},
        "witness": "c10",
        "assumptions": DECODE_ASSUMPTIONS + [
            "functional claims of the trusted callees: every buffer a callee can write (syntactic write set, derived from the source on each run) is completely rewritten from the named inputs",
        ],
    },
    "C05": {
        "level": "proof",
        "title": "Variable updates are exact saturating sums; 8-bit arithmetic never overflows",
        "verus": [],
        "kani": {"quick": C05_QUICK, "thorough": C05_THOROUGH},
        "assumptions": [
            "Kani/CBMC/CaDiCaL; overflow, bounds and unwinding assertions on",
            "8-bit arithmetic objects are built around the specified correction table through the guarded hook verif_with_table (the variable rule, the quantiser and clip do not read the table); that new() builds exactly that table is proved per type by c04_table__*",
            "float arithmetics: the variable rule is checked at degrees 1..3 only (thorough tier, bounded); their layered/flooding consistency is not covered",
        ],
    },
    "C04": {
        "level": "other",
        "title": "Every arithmetic's check-node message is a faithful (approximate) box-plus",
        "verus": [],
        "kani": {"quick": C04_QUICK, "thorough": C04_THOROUGH},
        "explanation_all": "Kani on the compiled real crate: for each of the sixteen 8-bit arithmetics, every message vector with values in [-127,127] at check degrees 2 and 3 (the domain the property calls exhaustive; degree 4 in the thorough tier): one message per neighbour, sign rule, magnitude bound with documented partial hard limiting, exact agreement with the min*-approximation / A-Min* recurrences over the correction table, and the table built by new() equals round(8 ln(1+e^(-t/8))) from libm values computed natively on this run. Float arithmetics and agreement with 2 atanh(prod tanh) are not decided.",
        "assumptions": [
            "Kani/CBMC/CaDiCaL",
            "libm values of ln(1+exp(-t/8)) for t = 0..127 are taken from the platform libm (computed natively each run) because Kani cannot execute the foreign log1p/exp",
            "rule harnesses build the arithmetic around the specified table through the guarded hook verif_with_table; new() == that table is a separate harness per type",
            "float types (Phi, Tanh, Minstarapproxf, Aminstarf): not covered",
        ],
    },
    "C18": {
        "level": "proof",
        "title": "Each decoder implementation name builds the arithmetic and schedule it names",
        "verus": [],
        "kani": {"quick": C18_QUICK, "thorough": C18_THOROUGH},
        "assumptions": [
            "Kani/CBMC/CaDiCaL; finite domain: the 36 names (complete) and every ASCII string of up to 48 bytes",
            "concrete decoder type read through the guarded hook LdpcDecoder::verif_type_name (std::any::type_name)",
            "a string containing a non-ASCII byte cannot equal an all-ASCII name (stated, not machine-checked)",
            "clap's ValueEnum::from_str on non-member strings is not covered (CBMC ran out of 10 GB); the 36 positive cases are",
            "libm-table stubs for exp/ln_1p while new() of the 8-bit arithmetics builds its table",
        ],
    },
    "C15": {
        "level": "other",
        "title": "Interleaving and puncturing are exact, invertible re-orderings",
        "verus": [],
        "kani": {"quick": C15_QUICK, "thorough": C15_THOROUGH},
        "explanation_all": "BOUNDED Kani harnesses on the real functions (ndarray code is outside Verus): interleave/deinterleave are the stated permutation and mutually inverse for the listed small shapes with symbolic contents and symbolic direction; puncture/depuncture keep exactly the marked blocks in order, restore zeros, report the rate and reject indivisible lengths, for every pattern of length <= 4 (one harness per pattern) and block sizes 1 and 2 with symbolic contents. Not a proof for all shapes.",
        "assumptions": ["Kani/CBMC/CaDiCaL", "bounded: shapes and patterns as listed per harness", "element type u8"],
    },
    "C14": {
        "level": "other",
        "title": "Demodulator LLRs are the exact posterior log-ratios of the constellation",
        "verus": [],
        "kani": {"quick": C14_ALL, "thorough": C14_ALL},
        "explanation_all": "PARTIAL. Decided by Kani on the real functions: the 8PSK constellation is the DVB-S2 Gray mapping with unit energy (all 8 triples, complete); BPSK maps 0 -> -1, 1 -> +1 and its LLR is zero at 0, odd in the sample and has the sign of minus the sample for every finite sample and sigma in [1e-3,1e3]; hard decisions on noiseless BPSK and 8PSK symbols return the bits (8PSK at sigma 0.1 under an axiomatised max*). NOT decided: that the soft values equal log P(0|r)/P(1|r) (bit-exact floating-point equivalence did not finish in CBMC; real analysis of max* is out of reach).",
        "assumptions": ["Kani/CBMC/CaDiCaL", "exp/ln_1p axiomatised in the 8PSK hard-decision harness", "posterior exactness not decided"],
    },
    "C03": {
        "level": "other",
        "title": "Both decoding schedules are textbook belief propagation for any arithmetic",
        "verus": [],
        "kani": {"quick": C03_KANI, "thorough": C03_KANI_THOROUGH},
        "explanation_all": "BOUNDED. A checker-supplied exact integer min-sum arithmetic is plugged into the real generic flooding::Decoder<A> and horizontal_layered::Decoder<A>; Kani proves, for every integer LLR vector in [-7,7]^n on a fixed 2x3 and 3x4 matrix and every limit <= 2, that the result (verdict, word, iterations) equals that of an executable textbook specification in the harness (flooding: all check messages from the previous variable messages, then all variable updates; layered: rows in order with immediate updates; syndrome after each full iteration). The sum-product posterior clause is not decided.",
        "assumptions": ["Kani/CBMC/CaDiCaL", "bounded: fixed small matrices, integer LLRs in [-7,7], limit <= 2", "one checker-supplied arithmetic (exact min-sum); tracing wrappers not used"],
    },
}
