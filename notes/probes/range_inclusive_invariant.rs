use vstd::prelude::*;
verus! {
pub uninterp spec fn F(k: nat) -> int;
fn f(n: usize) -> (c: Ghost<int>)
    requires n < usize::MAX
    ensures c@ == F(n as nat)
{
    let ghost mut g: int = F(0);
    for iteration in 1..=n
        invariant g == F((iteration - 1) as nat), n < usize::MAX,
    {
        proof { g = F(iteration as nat); }
    }
    Ghost(g)
}
} // verus!
fn main() {}
