//! C15: interleaving and puncturing are exact re-orderings (bounded: small shapes, symbolic contents).
use ldpc_toolbox::simulation::interleaving::Interleaver;
use ldpc_toolbox::simulation::puncturing::Puncturer;

fn interleave_shape<const C: usize, const R: usize, const N: usize>() {
    let backwards: bool = kani::any();
    let il = Interleaver::new(C, backwards);
    let mut input = [0u8; N];
    for k in 0..N {
        input[k] = kani::any();
    }
    let arr = ndarray::Array1::from_vec(input.to_vec());
    let out = il.interleave(&arr);
    assert!(out.len() == N);
    for r in 0..R {
        for c in 0..C {
            // column-write / row-read; columns taken in reverse order when reading backwards
            let src = if backwards { (C - 1 - c) * R + r } else { c * R + r };
            assert!(out[r * C + c] == input[src]);
        }
    }
    // deinterleaving is the exact inverse
    let outv = out.to_vec();
    let back = il.deinterleave(&outv);
    assert!(back.len() == N);
    for k in 0..N {
        assert!(back[k] == input[k]);
    }
    // and deinterleave is itself the stated permutation on arbitrary input
    let d = il.deinterleave(&input);
    for r in 0..R {
        for c in 0..C {
            let dst = if backwards { (C - 1 - c) * R + r } else { c * R + r };
            assert!(d[dst] == input[r * C + c]);
        }
    }
    kani::cover!(backwards);
    kani::cover!(!backwards);
}

macro_rules! il {
    ($name:ident, $c:expr, $r:expr) => {
        #[kani::proof]
        #[kani::unwind(20)]
        fn $name() {
            interleave_shape::<$c, $r, { $c * $r }>();
        }
    };
}
il!(c15_interleave_1x3, 1, 3);
il!(c15_interleave_2x2, 2, 2);
il!(c15_interleave_2x3, 2, 3);
il!(c15_interleave_3x2, 3, 2);
il!(c15_interleave_3x3, 3, 3);
il!(c15_interleave_2x4, 2, 4);
il!(c15_interleave_4x2, 4, 2);
il!(c15_interleave_3x1, 3, 1);
il!(c15_interleave_1x1, 1, 1);
il!(c15_interleave_5x1, 5, 1);
il!(c15_interleave_1x9, 1, 9);
il!(c15_interleave_9x1, 9, 1);

/// one concrete pattern (bit k of MASK = keep block k), block size B, symbolic contents:
/// puncturing keeps exactly the marked blocks in order, depuncturing restores zeros, rate, error paths
fn puncture_pattern<const P: usize, const B: usize, const MASK: usize, const N: usize, const NDARRAY: bool>() {
    let mut pat = [false; P];
    let mut kept = 0usize;
    for k in 0..P {
        pat[k] = (MASK >> k) & 1 == 1;
        if pat[k] {
            kept += 1;
        }
    }
    let p = Puncturer::new(&pat);
    let mut input = [0u8; N];
    for k in 0..N {
        input[k] = kani::any();
    }
    let mut want = [0u8; N];
    let mut j = 0usize;
    for k in 0..P {
        if pat[k] {
            for b in 0..B {
                want[j * B + b] = input[k * B + b];
            }
            j += 1;
        }
    }
    if NDARRAY {
        let arr = ndarray::Array1::from_vec(input.to_vec());
        let out = p.puncture(&arr);
        assert!(out.is_ok());
        let out = out.unwrap();
        assert!(out.len() == kept * B);
        for i in 0..kept * B {
            assert!(out[i] == want[i]);
        }
        // an indivisible length is an error
        if P > 1 {
            let short = ndarray::Array1::from_vec(input[..N - 1].to_vec());
            assert!(p.puncture(&short).is_err());
        }
    }
    let back = p.depuncture(&want[..kept * B]);
    assert!(back.is_ok());
    let back = back.unwrap();
    assert!(back.len() == N);
    for k in 0..P {
        for b in 0..B {
            if pat[k] {
                assert!(back[k * B + b] == input[k * B + b]);
            } else {
                assert!(back[k * B + b] == 0);
            }
        }
    }
    assert!(p.rate() == P as f64 / kept as f64);
    if kept > 1 {
        // kept * B - 1 is not a multiple of kept
        assert!(p.depuncture(&want[..kept * B - 1]).is_err());
    }
    kani::cover!(true);
}
#[kani::proof]
#[kani::unwind(20)]
fn c15_pattern_p1_m1_b1() {
    puncture_pattern::<1, 1, 1, 1, true>();
}
#[kani::proof]
#[kani::unwind(20)]
fn c15_pattern_p1_m1_b2() {
    puncture_pattern::<1, 2, 1, 2, true>();
}
#[kani::proof]
#[kani::unwind(20)]
fn c15_pattern_p2_m01_b1() {
    puncture_pattern::<2, 1, 1, 2, true>();
}
#[kani::proof]
#[kani::unwind(20)]
fn c15_pattern_p2_m01_b2() {
    puncture_pattern::<2, 2, 1, 4, true>();
}
#[kani::proof]
#[kani::unwind(20)]
fn c15_pattern_p2_m10_b1() {
    puncture_pattern::<2, 1, 2, 2, true>();
}
#[kani::proof]
#[kani::unwind(20)]
fn c15_pattern_p2_m10_b2() {
    puncture_pattern::<2, 2, 2, 4, true>();
}
#[kani::proof]
#[kani::unwind(20)]
fn c15_pattern_p2_m11_b1() {
    puncture_pattern::<2, 1, 3, 2, true>();
}
#[kani::proof]
#[kani::unwind(20)]
fn c15_pattern_p2_m11_b2() {
    puncture_pattern::<2, 2, 3, 4, true>();
}
#[kani::proof]
#[kani::unwind(20)]
fn c15_pattern_p3_m001_b1() {
    puncture_pattern::<3, 1, 1, 3, true>();
}
#[kani::proof]
#[kani::unwind(20)]
fn c15_pattern_p3_m001_b2() {
    puncture_pattern::<3, 2, 1, 6, false>();
}
#[kani::proof]
#[kani::unwind(20)]
fn c15_pattern_p3_m010_b1() {
    puncture_pattern::<3, 1, 2, 3, true>();
}
#[kani::proof]
#[kani::unwind(20)]
fn c15_pattern_p3_m010_b2() {
    puncture_pattern::<3, 2, 2, 6, false>();
}
#[kani::proof]
#[kani::unwind(20)]
fn c15_pattern_p3_m011_b1() {
    puncture_pattern::<3, 1, 3, 3, true>();
}
#[kani::proof]
#[kani::unwind(20)]
fn c15_pattern_p3_m011_b2() {
    puncture_pattern::<3, 2, 3, 6, false>();
}
#[kani::proof]
#[kani::unwind(20)]
fn c15_pattern_p3_m100_b1() {
    puncture_pattern::<3, 1, 4, 3, true>();
}
#[kani::proof]
#[kani::unwind(20)]
fn c15_pattern_p3_m100_b2() {
    puncture_pattern::<3, 2, 4, 6, false>();
}
#[kani::proof]
#[kani::unwind(20)]
fn c15_pattern_p3_m101_b1() {
    puncture_pattern::<3, 1, 5, 3, true>();
}
#[kani::proof]
#[kani::unwind(20)]
fn c15_pattern_p3_m101_b2() {
    puncture_pattern::<3, 2, 5, 6, false>();
}
#[kani::proof]
#[kani::unwind(20)]
fn c15_pattern_p3_m110_b1() {
    puncture_pattern::<3, 1, 6, 3, true>();
}
#[kani::proof]
#[kani::unwind(20)]
fn c15_pattern_p3_m110_b2() {
    puncture_pattern::<3, 2, 6, 6, false>();
}
#[kani::proof]
#[kani::unwind(20)]
fn c15_pattern_p3_m111_b1() {
    puncture_pattern::<3, 1, 7, 3, true>();
}
#[kani::proof]
#[kani::unwind(20)]
fn c15_pattern_p3_m111_b2() {
    puncture_pattern::<3, 2, 7, 6, false>();
}
#[kani::proof]
#[kani::unwind(20)]
fn c15_pattern_p4_m0001_b1() {
    puncture_pattern::<4, 1, 1, 4, false>();
}
#[kani::proof]
#[kani::unwind(20)]
fn c15_pattern_p4_m0001_b2() {
    puncture_pattern::<4, 2, 1, 8, false>();
}
#[kani::proof]
#[kani::unwind(20)]
fn c15_pattern_p4_m0010_b1() {
    puncture_pattern::<4, 1, 2, 4, false>();
}
#[kani::proof]
#[kani::unwind(20)]
fn c15_pattern_p4_m0010_b2() {
    puncture_pattern::<4, 2, 2, 8, false>();
}
#[kani::proof]
#[kani::unwind(20)]
fn c15_pattern_p4_m0011_b1() {
    puncture_pattern::<4, 1, 3, 4, false>();
}
#[kani::proof]
#[kani::unwind(20)]
fn c15_pattern_p4_m0011_b2() {
    puncture_pattern::<4, 2, 3, 8, false>();
}
#[kani::proof]
#[kani::unwind(20)]
fn c15_pattern_p4_m0100_b1() {
    puncture_pattern::<4, 1, 4, 4, false>();
}
#[kani::proof]
#[kani::unwind(20)]
fn c15_pattern_p4_m0100_b2() {
    puncture_pattern::<4, 2, 4, 8, false>();
}
#[kani::proof]
#[kani::unwind(20)]
fn c15_pattern_p4_m0101_b1() {
    puncture_pattern::<4, 1, 5, 4, false>();
}
#[kani::proof]
#[kani::unwind(20)]
fn c15_pattern_p4_m0101_b2() {
    puncture_pattern::<4, 2, 5, 8, false>();
}
#[kani::proof]
#[kani::unwind(20)]
fn c15_pattern_p4_m0110_b1() {
    puncture_pattern::<4, 1, 6, 4, false>();
}
#[kani::proof]
#[kani::unwind(20)]
fn c15_pattern_p4_m0110_b2() {
    puncture_pattern::<4, 2, 6, 8, false>();
}
#[kani::proof]
#[kani::unwind(20)]
fn c15_pattern_p4_m0111_b1() {
    puncture_pattern::<4, 1, 7, 4, false>();
}
#[kani::proof]
#[kani::unwind(20)]
fn c15_pattern_p4_m0111_b2() {
    puncture_pattern::<4, 2, 7, 8, false>();
}
#[kani::proof]
#[kani::unwind(20)]
fn c15_pattern_p4_m1000_b1() {
    puncture_pattern::<4, 1, 8, 4, false>();
}
#[kani::proof]
#[kani::unwind(20)]
fn c15_pattern_p4_m1000_b2() {
    puncture_pattern::<4, 2, 8, 8, false>();
}
#[kani::proof]
#[kani::unwind(20)]
fn c15_pattern_p4_m1001_b1() {
    puncture_pattern::<4, 1, 9, 4, false>();
}
#[kani::proof]
#[kani::unwind(20)]
fn c15_pattern_p4_m1001_b2() {
    puncture_pattern::<4, 2, 9, 8, false>();
}
#[kani::proof]
#[kani::unwind(20)]
fn c15_pattern_p4_m1010_b1() {
    puncture_pattern::<4, 1, 10, 4, false>();
}
#[kani::proof]
#[kani::unwind(20)]
fn c15_pattern_p4_m1010_b2() {
    puncture_pattern::<4, 2, 10, 8, false>();
}
#[kani::proof]
#[kani::unwind(20)]
fn c15_pattern_p4_m1011_b1() {
    puncture_pattern::<4, 1, 11, 4, false>();
}
#[kani::proof]
#[kani::unwind(20)]
fn c15_pattern_p4_m1011_b2() {
    puncture_pattern::<4, 2, 11, 8, false>();
}
#[kani::proof]
#[kani::unwind(20)]
fn c15_pattern_p4_m1100_b1() {
    puncture_pattern::<4, 1, 12, 4, false>();
}
#[kani::proof]
#[kani::unwind(20)]
fn c15_pattern_p4_m1100_b2() {
    puncture_pattern::<4, 2, 12, 8, false>();
}
#[kani::proof]
#[kani::unwind(20)]
fn c15_pattern_p4_m1101_b1() {
    puncture_pattern::<4, 1, 13, 4, false>();
}
#[kani::proof]
#[kani::unwind(20)]
fn c15_pattern_p4_m1101_b2() {
    puncture_pattern::<4, 2, 13, 8, false>();
}
#[kani::proof]
#[kani::unwind(20)]
fn c15_pattern_p4_m1110_b1() {
    puncture_pattern::<4, 1, 14, 4, false>();
}
#[kani::proof]
#[kani::unwind(20)]
fn c15_pattern_p4_m1110_b2() {
    puncture_pattern::<4, 2, 14, 8, false>();
}
#[kani::proof]
#[kani::unwind(20)]
fn c15_pattern_p4_m1111_b1() {
    puncture_pattern::<4, 1, 15, 4, false>();
}
#[kani::proof]
#[kani::unwind(20)]
fn c15_pattern_p4_m1111_b2() {
    puncture_pattern::<4, 2, 15, 8, false>();
}

// a concrete playback test printed by Kani for a failing harness of this module is replayed from here
include!(concat!(env!("VERIF_KANI_GEN"), "/playback_c15.rs"));
