//! Stubs for the transcendental functions Kani cannot execute (foreign libm).
//!
//! *libm-table mode*: exact values computed natively on this run by
//! `verif-replay libm-table`, for the 128 points at which `new()` of the 8-bit
//! arithmetics evaluates `exp(-t/8).ln_1p()`.  `exp` is stubbed as the
//! identity so that `ln_1p` receives `-t/8` and looks the exact value up.

include!(concat!(env!("VERIF_KANI_GEN"), "/libm_table.rs"));

pub fn exp_identity(x: f64) -> f64 {
    x
}

pub fn ln_1p_table(y: f64) -> f64 {
    // y = -(t / 8.0), t = 0..=127
    let t = (-y * 8.0) as usize;
    assert!(t < 128);
    f64::from_bits(LN1P_EXP_BITS[t])
}

/// correction table entry as the documentation defines it: round(8 ln(1 + e^{-t/8})), 0 when it rounds to 0
/// (precomputed natively on this run, so that the spec side contains no floating point)
pub fn table_spec(t: i32) -> i8 {
    if t < 0 || t > 127 {
        return 0;
    }
    TABLE_SPEC[t as usize]
}

/// the documented correction table as `new()` is specified to build it (non-zero prefix);
/// that the real `new()` builds exactly this is proved per type by the `c04_table__*` harnesses
pub fn spec_table() -> Box<[i8]> {
    TABLE_SPEC[..TABLE_LEN].to_vec().into_boxed_slice()
}
