//! C17, BOUNDED stand-in for the SparseMatrix functions that Verus cannot ingest (generic
//! iterators with `Borrow`, `flat_map`, iterator adaptors in `new`): `new`, `insert_row`,
//! `insert_col`, `set_row`, `set_col`, `iter_all`, on two fixed matrices (one wide, one tall)
//! with symbolic operation arguments, against a dense boolean model kept in the harness.
use ldpc_toolbox::sparse::SparseMatrix;

const R: usize = 3;
const C: usize = 3;

/// 2 x 3: ones at (0,0), (0,2), (1,1)
fn wide() -> (SparseMatrix, [[bool; C]; R], usize, usize) {
    let h = SparseMatrix::verif_from_lists(vec![vec![0, 2], vec![1]], vec![vec![0], vec![1], vec![0]]);
    let mut m = [[false; C]; R];
    m[0][0] = true;
    m[0][2] = true;
    m[1][1] = true;
    (h, m, 2, 3)
}

/// 3 x 2: ones at (0,1), (1,0), (1,1); row 2 empty
fn tall() -> (SparseMatrix, [[bool; C]; R], usize, usize) {
    let h = SparseMatrix::verif_from_lists(vec![vec![1], vec![0, 1], vec![]], vec![vec![1], vec![0, 1]]);
    let mut m = [[false; C]; R];
    m[0][1] = true;
    m[1][0] = true;
    m[1][1] = true;
    (h, m, 3, 2)
}

/// membership, weights, row / column / all-entries iterators agree with the dense model
fn agrees(h: &SparseMatrix, m: &[[bool; C]; R], nr: usize, nc: usize) {
    assert!(h.num_rows() == nr && h.num_cols() == nc);
    let mut total = 0usize;
    for r in 0..nr {
        let mut w = 0usize;
        for c in 0..nc {
            assert!(h.contains(r, c) == m[r][c]);
            if m[r][c] {
                w += 1;
            }
        }
        assert!(h.row_weight(r) == w);
        let mut seen = [false; C];
        let mut n = 0usize;
        for &c in h.iter_row(r) {
            assert!(c < nc && m[r][c] && !seen[c]);
            seen[c] = true;
            n += 1;
        }
        assert!(n == w);
        total += w;
    }
    for c in 0..nc {
        let mut w = 0usize;
        for r in 0..nr {
            if m[r][c] {
                w += 1;
            }
        }
        assert!(h.col_weight(c) == w);
        let mut seen = [false; R];
        let mut n = 0usize;
        for &r in h.iter_col(c) {
            assert!(r < nr && m[r][c] && !seen[r]);
            seen[r] = true;
            n += 1;
        }
        assert!(n == w);
    }
    let mut seen = [[false; C]; R];
    let mut n = 0usize;
    for (r, c) in h.iter_all() {
        assert!(r < nr && c < nc && m[r][c] && !seen[r][c]);
        seen[r][c] = true;
        n += 1;
    }
    assert!(n == total);
}

fn pick(wide_matrix: bool) -> (SparseMatrix, [[bool; C]; R], usize, usize) {
    if wide_matrix { wide() } else { tall() }
}

/// one concrete scenario: operation `$body` with arguments (a, x, y) on the wide or the tall matrix.
/// (Symbolic row / column arguments did not finish: 10 min and more per harness, CBMC out of
/// memory on some; the scenarios below are chosen to include repeated indices, entries that are
/// already present, empty rows and both shapes.)
macro_rules! bulk {
    ($name:ident, $wide:expr, $body:expr, $a:expr, $x:expr, $y:expr) => {
        #[kani::proof]
        #[kani::unwind(8)]
        fn $name() {
            let (mut h, mut m, nr, nc) = pick($wide);
            let f: fn(&mut SparseMatrix, &mut [[bool; C]; R], usize, usize, usize, usize, usize) = $body;
            f(&mut h, &mut m, nr, nc, $a, $x, $y);
            agrees(&h, &m, nr, nc);
            kani::cover!(true);
        }
    };
}

fn set_row(h: &mut SparseMatrix, m: &mut [[bool; C]; R], _nr: usize, nc: usize, a: usize, x: usize, y: usize) {
    h.set_row(a, [x, y].iter());
    for c in 0..nc {
        m[a][c] = c == x || c == y;
    }
}
fn set_col(h: &mut SparseMatrix, m: &mut [[bool; C]; R], nr: usize, _nc: usize, a: usize, x: usize, y: usize) {
    h.set_col(a, [x, y].iter());
    for r in 0..nr {
        m[r][a] = r == x || r == y;
    }
}
fn insert_row(h: &mut SparseMatrix, m: &mut [[bool; C]; R], _nr: usize, _nc: usize, a: usize, x: usize, y: usize) {
    h.insert_row(a, [x, y].iter());
    m[a][x] = true;
    m[a][y] = true;
}
fn insert_col(h: &mut SparseMatrix, m: &mut [[bool; C]; R], _nr: usize, _nc: usize, a: usize, x: usize, y: usize) {
    h.insert_col(a, [x, y].iter());
    m[x][a] = true;
    m[y][a] = true;
}

// wide = 2x3 {(0,0),(0,2),(1,1)}; tall = 3x2 {(0,1),(1,0),(1,1)}
bulk!(c17_set_row_wide_repeat, true, set_row, 0, 2, 2); // same length as the row, all present, repeated
bulk!(c17_set_row_wide_other, true, set_row, 1, 0, 1);
bulk!(c17_set_row_tall_empty, false, set_row, 2, 1, 0);
bulk!(c17_set_col_wide_repeat, true, set_col, 1, 1, 1);
bulk!(c17_set_col_tall_same, false, set_col, 1, 1, 0); // the column already holds exactly these rows
bulk!(c17_insert_row_wide_mixed, true, insert_row, 0, 2, 1); // one present, one new
bulk!(c17_insert_row_tall_repeat, false, insert_row, 2, 0, 0);
bulk!(c17_insert_col_wide_new, true, insert_col, 2, 1, 0);
bulk!(c17_insert_col_tall_repeat, false, insert_col, 0, 2, 2);
bulk!(c17_set_col_wide_desc, true, set_col, 2, 1, 0); // rows given in decreasing order
bulk!(c17_insert_row_tall_desc, false, insert_row, 2, 1, 0);

/// bulk operations with an EMPTY iterator: set_* clears, insert_* does nothing
#[kani::proof]
#[kani::unwind(8)]
fn c17_set_row_wide_empty() {
    // (an empty slice of a non-empty array: a zero-length array makes CBMC 6.11 abort)
    let backing = [0usize; 1];
    let none = &backing[..0];
    let (mut h, mut m, nr, nc) = wide();
    h.set_row(0, none.iter());
    for c in 0..nc {
        m[0][c] = false;
    }
    agrees(&h, &m, nr, nc);
    kani::cover!(true);
}

#[kani::proof]
#[kani::unwind(8)]
fn c17_set_col_tall_empty() {
    // (an empty slice of a non-empty array: a zero-length array makes CBMC 6.11 abort)
    let backing = [0usize; 1];
    let none = &backing[..0];
    let (mut h, mut m, nr, nc) = tall();
    h.set_col(1, none.iter());
    for r in 0..nr {
        m[r][1] = false;
    }
    agrees(&h, &m, nr, nc);
    kani::cover!(true);
}

#[kani::proof]
#[kani::unwind(8)]
fn c17_insert_empty_wide() {
    // (an empty slice of a non-empty array: a zero-length array makes CBMC 6.11 abort)
    let backing = [0usize; 1];
    let none = &backing[..0];
    let (mut h, m, nr, nc) = wide();
    h.insert_row(1, none.iter());
    h.insert_col(1, none.iter());
    agrees(&h, &m, nr, nc);
    kani::cover!(true);
}

/// the all-entries iterator and every view on the two fixed matrices
#[kani::proof]
#[kani::unwind(8)]
fn c17_views_fixed() {
    let (h, m, nr, nc) = wide();
    agrees(&h, &m, nr, nc);
    let (h, m, nr, nc) = tall();
    agrees(&h, &m, nr, nc);
    kani::cover!(true);
}

// `SparseMatrix::new` stays trusted: a Kani harness over shapes up to 3x3 did not finish in 40 min
// (repeat_with().take().collect() is the measured CBMC blow-up).

// a concrete playback test printed by Kani for a failing harness of this module is replayed from here
include!(concat!(env!("VERIF_KANI_GEN"), "/playback_c17.rs"));
