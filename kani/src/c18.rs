//! C18: each of the 36 implementation names parses, prints, is offered by clap under that string
//! and builds the decoder type it names.  One harness per name and per clause.
use crate::stubs::*;
use clap::ValueEnum;
use ldpc_toolbox::decoder::factory::{DecoderFactory, DecoderImplementation};
use ldpc_toolbox::sparse::SparseMatrix;
use std::fmt::Write;
use std::str::FromStr;

/// fixed-buffer writer (no allocation, no format! machinery on the checker side)
pub struct Buf {
    pub b: [u8; 64],
    pub n: usize,
}
impl Write for Buf {
    fn write_str(&mut self, s: &str) -> std::fmt::Result {
        for c in s.bytes() {
            if self.n >= 64 {
                return Err(std::fmt::Error);
            }
            self.b[self.n] = c;
            self.n += 1;
        }
        Ok(())
    }
}

fn eq_bytes(a: &[u8], b: &[u8]) -> bool {
    if a.len() != b.len() {
        return false;
    }
    let mut i = 0;
    while i < a.len() {
        if a[i] != b[i] {
            return false;
        }
        i += 1;
    }
    true
}

pub fn print_parse(v: DecoderImplementation, name: &'static str) {
    // prints back to the identical string
    let mut buf = Buf { b: [0; 64], n: 0 };
    assert!(write!(buf, "{}", v).is_ok());
    assert!(eq_bytes(&buf.b[..buf.n], name.as_bytes()));
    // parses from its string (both parsers the type has)
    assert!(<DecoderImplementation as FromStr>::from_str(name) == Ok(v));
    assert!(<DecoderImplementation as ValueEnum>::from_str(name, false) == Ok(v));
    kani::cover!(buf.n > 5);
}

/// quick-tier form of `print_parse`: Display and FromStr only (clap's own parser is exercised in
/// the thorough tier; that clap offers the name is `clap_name`)
pub fn print_fromstr(v: DecoderImplementation, name: &'static str) {
    let mut buf = Buf { b: [0; 64], n: 0 };
    assert!(write!(buf, "{}", v).is_ok());
    assert!(eq_bytes(&buf.b[..buf.n], name.as_bytes()));
    assert!(<DecoderImplementation as FromStr>::from_str(name) == Ok(v));
    kani::cover!(buf.n > 5);
}

pub fn clap_name(v: DecoderImplementation, name: &'static str) {
    let pv = v.to_possible_value();
    assert!(pv.is_some());
    let pv = pv.unwrap();
    assert!(eq_bytes(pv.get_name().as_bytes(), name.as_bytes()));
    // the value list offers all 36 names
    assert!(DecoderImplementation::value_variants().len() == 36);
    kani::cover!(true);
}

/// HL prefix means horizontal layered, otherwise flooding; the rest is the arithmetic's type name
pub fn builds_named_type(v: DecoderImplementation, name: &'static str) {
    let h = SparseMatrix::verif_from_lists(Vec::new(), Vec::new());
    let d = v.build_decoder(h);
    let tn = d.verif_type_name().as_bytes();
    let (sched, arith): (&[u8], &[u8]) = if name.as_bytes().len() > 2 && name.as_bytes()[0] == b'H' && name.as_bytes()[1] == b'L' {
        (b"horizontal_layered", &name.as_bytes()[2..])
    } else {
        (b"flooding", name.as_bytes())
    };
    let p1: &[u8] = b"ldpc_toolbox::decoder::";
    let p2: &[u8] = b"::Decoder<ldpc_toolbox::decoder::arithmetic::";
    let total = p1.len() + sched.len() + p2.len() + arith.len() + 1;
    assert!(tn.len() == total);
    let mut o = 0;
    assert!(eq_bytes(&tn[o..o + p1.len()], p1));
    o += p1.len();
    assert!(eq_bytes(&tn[o..o + sched.len()], sched));
    o += sched.len();
    assert!(eq_bytes(&tn[o..o + p2.len()], p2));
    o += p2.len();
    assert!(eq_bytes(&tn[o..o + arith.len()], arith));
    o += arith.len();
    assert!(tn[o] == b'>');
    kani::cover!(true);
}

macro_rules! c18_name {
    ($var:ident, $pp:ident, $cl:ident, $ty:ident, $pf:ident) => {
        #[kani::proof]
        #[kani::unwind(50)]
        fn $pf() {
            print_fromstr(DecoderImplementation::$var, stringify!($var));
        }
        #[kani::proof]
        #[kani::unwind(50)]
        fn $pp() {
            print_parse(DecoderImplementation::$var, stringify!($var));
        }
        #[kani::proof]
        #[kani::unwind(50)]
        fn $cl() {
            clap_name(DecoderImplementation::$var, stringify!($var));
        }
        #[kani::proof]
        #[kani::unwind(50)]
        #[kani::stub(f64::exp, exp_identity)]
        #[kani::stub(f64::ln_1p, ln_1p_table)]
        fn $ty() {
            builds_named_type(DecoderImplementation::$var, stringify!($var));
        }
    };
}

include!("c18_names.rs");

/// strings that are not one of the 36 names are rejected: for every ASCII string of up to 48
/// bytes, a successful parse implies that the string is exactly the printed name of the result
#[kani::proof]
#[kani::unwind(50)]
fn c18_reject_nonmembers_fromstr() {
    let bytes: [u8; 48] = kani::any();
    let n: usize = kani::any();
    kani::assume(n <= 48);
    for k in 0..48 {
        kani::assume(bytes[k] < 128);
    }
    let s = unsafe { std::str::from_utf8_unchecked(&bytes[..n]) };
    let r = <DecoderImplementation as FromStr>::from_str(s);
    if let Ok(v) = r {
        let mut buf = Buf { b: [0; 64], n: 0 };
        assert!(write!(buf, "{}", v).is_ok());
        assert!(eq_bytes(&buf.b[..buf.n], &bytes[..n]));
    }
    kani::cover!(r.is_ok());
    kani::cover!(r.is_err() && n > 10);
}

#[kani::proof]
#[kani::unwind(50)]
fn c18_reject_nonmembers_clap() {
    let bytes: [u8; 48] = kani::any();
    let n: usize = kani::any();
    kani::assume(n <= 48);
    for k in 0..48 {
        kani::assume(bytes[k] < 128);
    }
    let s = unsafe { std::str::from_utf8_unchecked(&bytes[..n]) };
    let r = <DecoderImplementation as ValueEnum>::from_str(s, false);
    if let Ok(v) = r {
        let mut buf = Buf { b: [0; 64], n: 0 };
        assert!(write!(buf, "{}", v).is_ok());
        assert!(eq_bytes(&buf.b[..buf.n], &bytes[..n]));
    }
    kani::cover!(r.is_ok());
    kani::cover!(r.is_err() && n > 10);
}

// a concrete playback test printed by Kani for a failing harness of this module is replayed from here
include!(concat!(env!("VERIF_KANI_GEN"), "/playback_c18.rs"));
