#!/bin/sh
# Build the framework from files on disk only (offline).
set -e
cd "$(dirname "$0")"
export CARGO_NET_OFFLINE=true
mkdir -p .work evidence replay/out
CARGO_TARGET_DIR="$PWD/.work/extract-target" cargo build --release --offline --manifest-path tools/extract/Cargo.toml
echo "setup ok"
