use vstd::prelude::*;
verus! {

pub open spec fn tab() -> Seq<Seq<Seq<int>>> {
    seq![ seq![ seq![1int, 2, 3], seq![4int, 5, 6] ], seq![ seq![7int, 8, 9], seq![10int, 11, 12] ] ]
}

exec static T: [[[usize; 3]; 2]; 2]
    ensures forall|a: int, b: int, c: int| 0 <= a < 2 && 0 <= b < 2 && 0 <= c < 3 ==> (#[trigger] T@[a]@[b]@[c]) as int == tab()[a][b][c]
{
    [ [ [1, 2, 3], [4, 5, 6] ], [ [7, 8, 9], [10, 11, 12] ] ]
}

fn get(a: usize, b: usize, c: usize) -> (r: usize)
    requires a < 2, b < 2, c < 3
    ensures r as int == tab()[a as int][b as int][c as int], r <= 12
{
    T[a][b][c]
}

} // verus!
fn main() {}
