use vstd::prelude::*;
verus! {

fn f1(a: &mut [i32], b: &[i32])
{
    for (x, y) in a.iter_mut().zip(b.iter()) {
        *x = *y;
    }
}


fn f3(a: &[i32]) -> bool {
    a.iter().any(|x| *x == 0)
}

fn f5(a: &[u8]) -> Vec<u8> {
    a.iter().map(|x| *x).collect()
}

} // verus!
fn main() {}
