// layered/flooding consistency at check degree 4 (thorough tier)
#[kani::proof]
#[kani::unwind(6)]
fn c05_layered4__Minstarapproxi8() {
    layered_rule::<Minstarapproxi8, 4>(<Minstarapproxi8>::verif_with_table(spec_table()), <Minstarapproxi8>::verif_with_table(spec_table()));
}
#[kani::proof]
#[kani::unwind(6)]
fn c05_layered4__Minstarapproxi8Jones() {
    layered_rule::<Minstarapproxi8Jones, 4>(<Minstarapproxi8Jones>::verif_with_table(spec_table()), <Minstarapproxi8Jones>::verif_with_table(spec_table()));
}
#[kani::proof]
#[kani::unwind(6)]
fn c05_layered4__Minstarapproxi8PartialHardLimit() {
    layered_rule::<Minstarapproxi8PartialHardLimit, 4>(<Minstarapproxi8PartialHardLimit>::verif_with_table(spec_table()), <Minstarapproxi8PartialHardLimit>::verif_with_table(spec_table()));
}
#[kani::proof]
#[kani::unwind(6)]
fn c05_layered4__Minstarapproxi8JonesPartialHardLimit() {
    layered_rule::<Minstarapproxi8JonesPartialHardLimit, 4>(<Minstarapproxi8JonesPartialHardLimit>::verif_with_table(spec_table()), <Minstarapproxi8JonesPartialHardLimit>::verif_with_table(spec_table()));
}
#[kani::proof]
#[kani::unwind(6)]
fn c05_layered4__Minstarapproxi8Deg1Clip() {
    layered_rule::<Minstarapproxi8Deg1Clip, 4>(<Minstarapproxi8Deg1Clip>::verif_with_table(spec_table()), <Minstarapproxi8Deg1Clip>::verif_with_table(spec_table()));
}
#[kani::proof]
#[kani::unwind(6)]
fn c05_layered4__Minstarapproxi8JonesDeg1Clip() {
    layered_rule::<Minstarapproxi8JonesDeg1Clip, 4>(<Minstarapproxi8JonesDeg1Clip>::verif_with_table(spec_table()), <Minstarapproxi8JonesDeg1Clip>::verif_with_table(spec_table()));
}
#[kani::proof]
#[kani::unwind(6)]
fn c05_layered4__Minstarapproxi8PartialHardLimitDeg1Clip() {
    layered_rule::<Minstarapproxi8PartialHardLimitDeg1Clip, 4>(<Minstarapproxi8PartialHardLimitDeg1Clip>::verif_with_table(spec_table()), <Minstarapproxi8PartialHardLimitDeg1Clip>::verif_with_table(spec_table()));
}
#[kani::proof]
#[kani::unwind(6)]
fn c05_layered4__Minstarapproxi8JonesPartialHardLimitDeg1Clip() {
    layered_rule::<Minstarapproxi8JonesPartialHardLimitDeg1Clip, 4>(<Minstarapproxi8JonesPartialHardLimitDeg1Clip>::verif_with_table(spec_table()), <Minstarapproxi8JonesPartialHardLimitDeg1Clip>::verif_with_table(spec_table()));
}
#[kani::proof]
#[kani::unwind(6)]
fn c05_layered4__Aminstari8() {
    layered_rule::<Aminstari8, 4>(<Aminstari8>::verif_with_table(spec_table()), <Aminstari8>::verif_with_table(spec_table()));
}
#[kani::proof]
#[kani::unwind(6)]
fn c05_layered4__Aminstari8Jones() {
    layered_rule::<Aminstari8Jones, 4>(<Aminstari8Jones>::verif_with_table(spec_table()), <Aminstari8Jones>::verif_with_table(spec_table()));
}
#[kani::proof]
#[kani::unwind(6)]
fn c05_layered4__Aminstari8PartialHardLimit() {
    layered_rule::<Aminstari8PartialHardLimit, 4>(<Aminstari8PartialHardLimit>::verif_with_table(spec_table()), <Aminstari8PartialHardLimit>::verif_with_table(spec_table()));
}
#[kani::proof]
#[kani::unwind(6)]
fn c05_layered4__Aminstari8JonesPartialHardLimit() {
    layered_rule::<Aminstari8JonesPartialHardLimit, 4>(<Aminstari8JonesPartialHardLimit>::verif_with_table(spec_table()), <Aminstari8JonesPartialHardLimit>::verif_with_table(spec_table()));
}
#[kani::proof]
#[kani::unwind(6)]
fn c05_layered4__Aminstari8Deg1Clip() {
    layered_rule::<Aminstari8Deg1Clip, 4>(<Aminstari8Deg1Clip>::verif_with_table(spec_table()), <Aminstari8Deg1Clip>::verif_with_table(spec_table()));
}
#[kani::proof]
#[kani::unwind(6)]
fn c05_layered4__Aminstari8JonesDeg1Clip() {
    layered_rule::<Aminstari8JonesDeg1Clip, 4>(<Aminstari8JonesDeg1Clip>::verif_with_table(spec_table()), <Aminstari8JonesDeg1Clip>::verif_with_table(spec_table()));
}
#[kani::proof]
#[kani::unwind(6)]
fn c05_layered4__Aminstari8PartialHardLimitDeg1Clip() {
    layered_rule::<Aminstari8PartialHardLimitDeg1Clip, 4>(<Aminstari8PartialHardLimitDeg1Clip>::verif_with_table(spec_table()), <Aminstari8PartialHardLimitDeg1Clip>::verif_with_table(spec_table()));
}
#[kani::proof]
#[kani::unwind(6)]
fn c05_layered4__Aminstari8JonesPartialHardLimitDeg1Clip() {
    layered_rule::<Aminstari8JonesPartialHardLimitDeg1Clip, 4>(<Aminstari8JonesPartialHardLimitDeg1Clip>::verif_with_table(spec_table()), <Aminstari8JonesPartialHardLimitDeg1Clip>::verif_with_table(spec_table()));
}
