"""Run Verus on a generated unit and classify the outcome."""
import json, os, re, subprocess, time
from unitgen import map_line, Undecided

SLUG = [
    ("postcondition not satisfied", "ensures"),
    ("precondition not satisfied", "requires-of-callee"),
    ("invariant not satisfied before loop", "invariant-init"),
    ("invariant not satisfied at end of loop body", "invariant-step"),
    ("assertion failed", "assert"),
    ("possible arithmetic underflow/overflow", "overflow"),
    ("possible division by zero", "div-by-zero"),
    ("decreases not satisfied", "decreases"),
    ("could not prove termination", "termination"),
    ("loop invariant", "invariant"),
    ("unreachable", "unreachable"),
    ("possible bit shift underflow/overflow", "shift-overflow"),
    ("unable to prove post-condition of closure", "closure-ensures"),
    ("bitvector assertion not satisfied", "assert-bitvector"),
    ("decreases not satisfied", "decreases"),
]

UNDECIDED_PAT = re.compile(
    r"rlimit|[Rr]esource limit|not supported|unsupported|does not (yet )?support|timed? ?out|"
    r"cannot find|unresolved|mismatched types|expected .* found|no method named|"
    r"The verifier does not yet support|internal error|panicked|unexpected token|expected one of|"
    r"cannot call function|mode mismatch|expected mode|not allowed|is private|no field|multiple applicable|"
    r"cannot infer|borrow|lifetime|mismatched|unknown (field|token)|failed to resolve", re.I)


def run_unit(meta, rlimit=50, extra=None, timeout=1800, threads=8):
    path = meta["path"]
    cwd = os.path.dirname(path)
    cmd = ["verus", os.path.basename(path), "--output-json", "--time", "--error-format=json",
           "--multiple-errors", "20", "--rlimit", str(rlimit), "--num-threads", str(threads)] + (extra or [])
    t0 = time.time()
    try:
        r = subprocess.run(cmd, cwd=cwd, stdout=subprocess.PIPE, stderr=subprocess.PIPE, text=True, timeout=timeout)
    except subprocess.TimeoutExpired:
        return {"status": "undecided", "reason": f"verus timed out after {timeout}s", "cmd": " ".join(cmd),
                "wall_s": time.time() - t0, "functions": [], "failures": [], "verified": 0, "errors": 0, "smt_ms": 0}
    wall = time.time() - t0
    res = {"cmd": " ".join(cmd), "wall_s": wall, "functions": [], "failures": [], "verified": 0, "errors": 0,
           "smt_ms": 0, "raw_stderr_tail": r.stderr[-4000:]}
    try:
        j = json.loads(r.stdout)
    except Exception:
        res.update(status="undecided", reason="verus produced no JSON: " + (r.stderr[-1500:] or r.stdout[-500:]))
        return res
    vr = j.get("verification-results", {})
    res["verified"] = vr.get("verified", 0)
    res["errors"] = vr.get("errors", 0)
    tm = j.get("times-ms", {})
    smt = tm.get("smt", {})
    res["smt_ms"] = smt.get("smt-run", 0)
    res["verus_version"] = j.get("verus", {}).get("version", "")
    for mod in smt.get("smt-run-module-times", []):
        for f in mod.get("function-breakdown", []):
            res["functions"].append({"name": f["function"].split("::", 1)[-1], "mode": f.get("mode:", f.get("mode", "")),
                                     "success": f.get("success"), "time_us": f.get("time-micros", 0),
                                     "rlimit": f.get("rlimit", 0)})
    diags = []
    for line in r.stderr.split("\n"):
        line = line.strip()
        if not line.startswith("{"):
            continue
        try:
            d = json.loads(line)
        except Exception:
            continue
        if d.get("level") == "error" and not d.get("message", "").startswith("aborting due to"):
            diags.append(d)
    hard = vr.get("encountered-vir-error") or "verified" not in vr or \
        (diags and vr.get("errors", 0) == 0 and vr.get("verified", 0) == 0)
    unit_name = meta["unit"]
    for d in diags:
        msg = d.get("message", "")
        slug = None
        for pat, s in SLUG:
            if pat in msg:
                slug = s
                break
        spans = d.get("spans", [])
        prim = next((s for s in spans if s.get("is_primary")), spans[0] if spans else None)
        clause_span = next((s for s in spans if s.get("label") and "failed" in s["label"]), prim)
        line = prim["line_start"] if prim else 0
        cl_line = clause_span["line_start"] if clause_span else line
        clause = ""
        if clause_span and clause_span.get("text"):
            t = clause_span["text"][0]
            clause = t["text"][max(0, t.get("highlight_start", 1) - 1):t.get("highlight_end", 10 ** 6) - 1].strip()
            if len(clause_span["text"]) > 1:
                clause += " .."
        file, src, fn, lab = map_line(meta, line)
        if fn is None:
            for k in range(min(line, len(meta["lines"])) - 1, -1, -1):
                m = re.search(r"\bfn\s+(\w+)", meta["lines"][k])
                if m:
                    fn = m.group(1)
                    break
        cfile, csrc, cfn, clab = map_line(meta, cl_line)
        f = {"message": msg, "kind": slug, "unit_line": line, "clause_line": cl_line, "clause": clause[:160],
             "fn": fn or "?", "file": file, "src_line": src, "splice": lab or clab,
             "rendered": (d.get("rendered") or "")[:1500]}
        if slug is None:
            slug = re.sub(r"[^a-z0-9]+", "-", msg.lower())[:40].strip("-")
            f["kind"] = slug
        f["obligation"] = f"{unit_name}/{f['fn']}/{slug}: {clause[:100]}"
        if d.get("code") or UNDECIDED_PAT.search(msg):
            f["undecided"] = True
        res["failures"].append(f)
    if hard or any(f.get("undecided") for f in res["failures"]):
        bad = [f for f in res["failures"] if f.get("undecided")]
        res["status"] = "undecided"
        res["reason"] = "; ".join(f"{f['message'][:200]} (unit line {f['unit_line']}, fn {f['fn']})" for f in bad[:5]) or \
            ("verus could not process the unit: " + r.stderr[-800:])
    elif res["errors"] > 0 or res["failures"]:
        res["status"] = "failed"
    elif res["verified"] > 0:
        res["status"] = "verified"
    else:
        res["status"] = "undecided"
        res["reason"] = "no obligations generated"
    return res
