//! C04: check-node rule of the 8-bit arithmetics, every value in [-127,127], degrees 2 and 3
//! (the domain the property calls exhaustive) and 4 (thorough tier).
use crate::stubs::*;
use ldpc_toolbox::decoder::arithmetic::*;
use ldpc_toolbox::decoder::{Message, SentMessage};

#[derive(Clone, Copy, PartialEq)]
pub enum Family {
    MinStarApprox,
    AMinStar,
}

fn hl(x: i32, phl: bool) -> i32 {
    if !phl { x } else if x <= -100 { -127 } else if x >= 100 { 127 } else { x }
}

/// the pairwise min* approximation of reference [1]: max(0, min(x,y) - T(|x-y|))
fn ms_approx(x: i32, y: i32) -> i32 {
    let v = x.min(y) - table_spec((x - y).abs()) as i32;
    if v > 0 { v } else { 0 }
}

/// the pairwise min* with both correction terms (A-Min*): max(0, min(x,y) - T(|x-y|) + T(x+y))
fn ms_full(x: i32, y: i32) -> i32 {
    let s = if x + y > 127 { 127 } else { x + y };
    let v = x.min(y) - table_spec((x - y).abs()) as i32 + table_spec(s) as i32;
    if v > 0 { v } else { 0 }
}

pub fn check_rule<A, const D: usize>(mut a: A, fam: Family, phl: bool)
where
    A: DecoderArithmetic<CheckMessage = i8, VarMessage = i8>,
{
    let mut v = [0i32; D];
    let mut msgs = [Message { source: 0usize, value: 0i8 }; D];
    for k in 0..D {
        let x: i8 = kani::any();
        kani::assume(x >= -127);
        v[k] = x as i32;
        msgs[k] = Message { source: 1000 + k, value: x };
    }
    let mut out = [0i32; D];
    let mut seen = [0u8; D];
    let mut count = 0usize;
    let mut bad_dest = false;
    a.send_check_messages(&msgs, |m: SentMessage<i8>| {
        count += 1;
        if m.dest >= 1000 && m.dest < 1000 + D {
            out[m.dest - 1000] = m.value as i32;
            seen[m.dest - 1000] += 1;
        } else {
            bad_dest = true;
        }
    });
    // exactly one message per neighbour
    assert!(count == D);
    assert!(!bad_dest);
    for k in 0..D {
        assert!(seen[k] == 1);
    }
    for k in 0..D {
        let mut neg = 0u32;
        let mut minoth = 1000i32;
        for j in 0..D {
            if j != k {
                if v[j] < 0 {
                    neg ^= 1;
                }
                if v[j].abs() < minoth {
                    minoth = v[j].abs();
                }
            }
        }
        let o = out[k];
        assert!(o != -128);
        // sign = product of the other neighbours' signs whenever the message is non-zero
        if o > 0 {
            assert!(neg == 0);
        }
        if o < 0 {
            assert!(neg == 1);
        }
        // magnitude never exceeds the smallest other magnitude, except documented partial hard limiting
        assert!(o.abs() <= minoth || (phl && o.abs() == 127 && minoth >= 100));
        if phl {
            assert!(o.abs() < 100 || o.abs() == 127);
        }
    }
    // exact forms (reference [1] eq. (36) over the correction table), degrees 2 and 3
    if fam == Family::MinStarApprox {
        if D == 2 {
            assert!(out[0] == hl(v[1], phl));
            assert!(out[1] == hl(v[0], phl));
        }
        if D == 3 {
            for k in 0..D {
                let (x, y) = (v[(k + 1) % 3], v[(k + 2) % 3]);
                let mag = ms_approx(x.abs(), y.abs());
                let neg = (x < 0) ^ (y < 0);
                assert!(out[k] == hl(if neg { -mag } else { mag }, phl));
            }
        }
    }
    if fam == Family::AMinStar && D <= 3 {
        // least reliable input: first index of minimum magnitude
        let mut am = 0usize;
        for k in 0..D {
            if v[k].abs() < v[am].abs() {
                am = k;
            }
        }
        let mut total_neg = false;
        let mut delta: i32 = -1;
        for k in 0..D {
            if v[k] < 0 {
                total_neg = !total_neg;
            }
            if k != am {
                delta = if delta < 0 { v[k].abs() } else { ms_full(v[k].abs(), delta) };
            }
        }
        // towards the least reliable input: min* of the others
        let d1 = hl(delta, phl);
        assert!(out[am] == if total_neg ^ (v[am] < 0) { -d1 } else { d1 });
        // every other neighbour: min* of all inputs
        let d2 = hl(ms_full(delta, v[am].abs()), phl);
        for k in 0..D {
            if k != am {
                assert!(out[k] == if total_neg ^ (v[k] < 0) { -d2 } else { d2 });
            }
        }
    }
    kani::cover!(out[0] > 0);
    kani::cover!(out[0] < 0);
    kani::cover!(out[0] == 0);
    kani::cover!(!phl || out[D - 1].abs() == 127);
    kani::cover!(phl || out[D - 1].abs() > 100);
}

macro_rules! c04_8bit {
    ($ty:ident, $fam:expr, $phl:expr, $tab:ident, $d2:ident, $d3:ident, $d4:ident) => {
        /// contract of `new()`: the correction table is round(8 ln(1 + e^{-t/8})) cut at its first zero
        /// (libm-table mode: exact libm values computed natively on this run)
        #[kani::proof]
        #[kani::unwind(30)]
        #[kani::stub(f64::exp, exp_identity)]
        #[kani::stub(f64::ln_1p, ln_1p_table)]
        fn $tab() {
            let a = <$ty>::new();
            let t = a.verif_table();
            assert!(t.len() == TABLE_LEN);
            for k in 0..TABLE_LEN {
                assert!(t[k] == TABLE_SPEC[k]);
            }
            kani::cover!(t.len() > 10);
        }
        #[kani::proof]
        #[kani::unwind(4)]
        fn $d2() {
            check_rule::<$ty, 2>(<$ty>::verif_with_table(spec_table()), $fam, $phl);
        }
        #[kani::proof]
        #[kani::unwind(5)]
        fn $d3() {
            check_rule::<$ty, 3>(<$ty>::verif_with_table(spec_table()), $fam, $phl);
        }
        #[kani::proof]
        #[kani::unwind(6)]
        fn $d4() {
            check_rule::<$ty, 4>(<$ty>::verif_with_table(spec_table()), $fam, $phl);
        }
    };
}

c04_8bit!(Minstarapproxi8, Family::MinStarApprox, false, c04_table__Minstarapproxi8, c04_check2__Minstarapproxi8, c04_check3__Minstarapproxi8, c04_check4__Minstarapproxi8);
c04_8bit!(Minstarapproxi8Jones, Family::MinStarApprox, false, c04_table__Minstarapproxi8Jones, c04_check2__Minstarapproxi8Jones, c04_check3__Minstarapproxi8Jones, c04_check4__Minstarapproxi8Jones);
c04_8bit!(Minstarapproxi8PartialHardLimit, Family::MinStarApprox, true, c04_table__Minstarapproxi8PartialHardLimit, c04_check2__Minstarapproxi8PartialHardLimit, c04_check3__Minstarapproxi8PartialHardLimit, c04_check4__Minstarapproxi8PartialHardLimit);
c04_8bit!(Minstarapproxi8JonesPartialHardLimit, Family::MinStarApprox, true, c04_table__Minstarapproxi8JonesPartialHardLimit, c04_check2__Minstarapproxi8JonesPartialHardLimit, c04_check3__Minstarapproxi8JonesPartialHardLimit, c04_check4__Minstarapproxi8JonesPartialHardLimit);
c04_8bit!(Minstarapproxi8Deg1Clip, Family::MinStarApprox, false, c04_table__Minstarapproxi8Deg1Clip, c04_check2__Minstarapproxi8Deg1Clip, c04_check3__Minstarapproxi8Deg1Clip, c04_check4__Minstarapproxi8Deg1Clip);
c04_8bit!(Minstarapproxi8JonesDeg1Clip, Family::MinStarApprox, false, c04_table__Minstarapproxi8JonesDeg1Clip, c04_check2__Minstarapproxi8JonesDeg1Clip, c04_check3__Minstarapproxi8JonesDeg1Clip, c04_check4__Minstarapproxi8JonesDeg1Clip);
c04_8bit!(Minstarapproxi8PartialHardLimitDeg1Clip, Family::MinStarApprox, true, c04_table__Minstarapproxi8PartialHardLimitDeg1Clip, c04_check2__Minstarapproxi8PartialHardLimitDeg1Clip, c04_check3__Minstarapproxi8PartialHardLimitDeg1Clip, c04_check4__Minstarapproxi8PartialHardLimitDeg1Clip);
c04_8bit!(Minstarapproxi8JonesPartialHardLimitDeg1Clip, Family::MinStarApprox, true, c04_table__Minstarapproxi8JonesPartialHardLimitDeg1Clip, c04_check2__Minstarapproxi8JonesPartialHardLimitDeg1Clip, c04_check3__Minstarapproxi8JonesPartialHardLimitDeg1Clip, c04_check4__Minstarapproxi8JonesPartialHardLimitDeg1Clip);
c04_8bit!(Aminstari8, Family::AMinStar, false, c04_table__Aminstari8, c04_check2__Aminstari8, c04_check3__Aminstari8, c04_check4__Aminstari8);
c04_8bit!(Aminstari8Jones, Family::AMinStar, false, c04_table__Aminstari8Jones, c04_check2__Aminstari8Jones, c04_check3__Aminstari8Jones, c04_check4__Aminstari8Jones);
c04_8bit!(Aminstari8PartialHardLimit, Family::AMinStar, true, c04_table__Aminstari8PartialHardLimit, c04_check2__Aminstari8PartialHardLimit, c04_check3__Aminstari8PartialHardLimit, c04_check4__Aminstari8PartialHardLimit);
c04_8bit!(Aminstari8JonesPartialHardLimit, Family::AMinStar, true, c04_table__Aminstari8JonesPartialHardLimit, c04_check2__Aminstari8JonesPartialHardLimit, c04_check3__Aminstari8JonesPartialHardLimit, c04_check4__Aminstari8JonesPartialHardLimit);
c04_8bit!(Aminstari8Deg1Clip, Family::AMinStar, false, c04_table__Aminstari8Deg1Clip, c04_check2__Aminstari8Deg1Clip, c04_check3__Aminstari8Deg1Clip, c04_check4__Aminstari8Deg1Clip);
c04_8bit!(Aminstari8JonesDeg1Clip, Family::AMinStar, false, c04_table__Aminstari8JonesDeg1Clip, c04_check2__Aminstari8JonesDeg1Clip, c04_check3__Aminstari8JonesDeg1Clip, c04_check4__Aminstari8JonesDeg1Clip);
c04_8bit!(Aminstari8PartialHardLimitDeg1Clip, Family::AMinStar, true, c04_table__Aminstari8PartialHardLimitDeg1Clip, c04_check2__Aminstari8PartialHardLimitDeg1Clip, c04_check3__Aminstari8PartialHardLimitDeg1Clip, c04_check4__Aminstari8PartialHardLimitDeg1Clip);
c04_8bit!(Aminstari8JonesPartialHardLimitDeg1Clip, Family::AMinStar, true, c04_table__Aminstari8JonesPartialHardLimitDeg1Clip, c04_check2__Aminstari8JonesPartialHardLimitDeg1Clip, c04_check3__Aminstari8JonesPartialHardLimitDeg1Clip, c04_check4__Aminstari8JonesPartialHardLimitDeg1Clip);

include!("c04_more.rs");

// a concrete playback test printed by Kani for a failing harness of this module is replayed from here
include!(concat!(env!("VERIF_KANI_GEN"), "/playback_c04.rs"));
