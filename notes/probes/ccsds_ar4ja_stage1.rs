use vstd::prelude::*;
verus! {
pub struct SparseMatrix { rows: Vec<Vec<usize>>, cols: Vec<Vec<usize>> }
impl SparseMatrix {
    pub closed spec fn nrows(&self) -> int { self.rows.len() as int }
    pub closed spec fn ncols(&self) -> int { self.cols.len() as int }
    #[verifier::external_body]
    pub fn new(nrows: usize, ncols: usize) -> (h: SparseMatrix) ensures h.nrows() == nrows, h.ncols() == ncols { unimplemented!() }
    #[verifier::external_body]
    pub fn insert(&mut self, row: usize, col: usize) requires row < old(self).nrows(), col < old(self).ncols() ensures final(self).nrows() == old(self).nrows(), final(self).ncols() == old(self).ncols() { unimplemented!() }
    #[verifier::external_body]
    pub fn toggle(&mut self, row: usize, col: usize) requires row < old(self).nrows(), col < old(self).ncols() ensures final(self).nrows() == old(self).nrows(), final(self).ncols() == old(self).ncols() { unimplemented!() }
}
/// AR4JA code definition.
#[derive(Copy, Clone, Debug, Eq, PartialEq, Hash)]
pub struct AR4JACode {
    rate: AR4JARate,
    k: AR4JAInfoSize,
}

/// AR4JA code rate.
#[derive(Copy, Clone, Debug, Eq, PartialEq, Hash)]
pub enum AR4JARate {
    /// Rate 1/2.
    R1_2,
    /// Rate 2/3.
    R2_3,
    /// Rate 4/5.
    R4_5,
}

/// AR4JA information block size `k`.
#[derive(Copy, Clone, Debug, Eq, PartialEq, Hash)]
pub enum AR4JAInfoSize {
    /// k = 1024
    K1024,
    /// k = 4096,
    K4096,
    /// k = 16384,
    K16384,
}


pub open spec fn pow2m(l: int) -> int {
    if l == 7 { 128 } else if l == 8 { 256 } else if l == 9 { 512 } else if l == 10 { 1024 } else if l == 11 { 2048 } else if l == 12 { 4096 } else { 8192 }
}
proof fn lemma_shl(l: usize)
    requires 7 <= l <= 13
    ensures (1usize << l) == pow2m(l as int), l >= 2, (1usize << ((l - 2) as usize)) == pow2m(l as int) / 4
{
    assert(1usize << 7usize == 128) by (bit_vector);
    assert(1usize << 8usize == 256) by (bit_vector);
    assert(1usize << 9usize == 512) by (bit_vector);
    assert(1usize << 10usize == 1024) by (bit_vector);
    assert(1usize << 11usize == 2048) by (bit_vector);
    assert(1usize << 12usize == 4096) by (bit_vector);
    assert(1usize << 13usize == 8192) by (bit_vector);
    assert(1usize << 5usize == 32) by (bit_vector);
    assert(1usize << 6usize == 64) by (bit_vector);
}

pub open spec fn theta_tab() -> Seq<u8> { seq![3u8, 0, 1, 2, 2, 3, 0, 1, 0, 1, 2, 0, 2, 3, 0, 1, 2, 0, 1, 2, 0, 1, 2, 1, 2, 3] }
pub uninterp spec fn phi_spec(l: int, k: int, j: int) -> int;
impl AR4JACode {
    pub closed spec fn mm(&self) -> int { pow2m(self.m_spec().log2_spec()) }
    spec fn m_spec(&self) -> M { match (self.rate, self.k) {
            (AR4JARate::R1_2, AR4JAInfoSize::K1024) => M::M512,
            (AR4JARate::R2_3, AR4JAInfoSize::K1024) => M::M256,
            (AR4JARate::R4_5, AR4JAInfoSize::K1024) => M::M128,
            (AR4JARate::R1_2, AR4JAInfoSize::K4096) => M::M2048,
            (AR4JARate::R2_3, AR4JAInfoSize::K4096) => M::M1024,
            (AR4JARate::R4_5, AR4JAInfoSize::K4096) => M::M512,
            (AR4JARate::R1_2, AR4JAInfoSize::K16384) => M::M8192,
            (AR4JARate::R2_3, AR4JAInfoSize::K16384) => M::M4096,
            (AR4JARate::R4_5, AR4JAInfoSize::K16384) => M::M2048,
        } }

    /// Creates an AR4JA code definition.
    pub fn new(rate: AR4JARate, information_block_size: AR4JAInfoSize) -> AR4JACode {
        AR4JACode {
            rate,
            k: information_block_size,
        }
    }

    /// Constructs the parity check matrix for the code.
    pub fn h(&self) -> (h: SparseMatrix)
        ensures h.nrows() == 3 * self.mm(),
    {
        proof { lemma_shl(self.m_spec().log2_spec() as usize); }
        let m = 1 << self.m().log2();
        assert(m == self.mm() && 128 <= m <= 8192);
        let extra_column_blocks = match self.rate {
            AR4JARate::R1_2 => 0,
            AR4JARate::R2_3 => 2,
            AR4JARate::R4_5 => 6,
        };
        let extra_columns = m * extra_column_blocks;
        let ghost extra_columns_total = extra_columns;
        let mut h = SparseMatrix::new(3 * m, extra_columns + 5 * m);

        // fill common part (H_1/2)
        for i in 0..m
            invariant m == self.mm(), 128 <= m <= 8192, h.nrows() == 3 * m, h.ncols() == extra_columns_total + 5 * m, extra_columns_total == m * extra_column_blocks, extra_column_blocks <= 6, extra_columns == extra_columns_total,
        {
            // block(0,2) = I_M
            h.insert(i, extra_columns + 2 * m + i);
            // block(0,4) = I_M + Pi_1
            h.insert(i, extra_columns + 4 * m + i);
            h.toggle(i, extra_columns + 4 * m + self.pi(1, i));
            // block(1,0) = I_M
            h.insert(m + i, extra_columns + i);
            // block(1,1) = I_M
            h.insert(m + i, extra_columns + m + i);
            // block(1,3) = I_M
            h.insert(m + i, extra_columns + 3 * m + i);
            // block(1,4) = Pi_2 + Pi_3 + Pi_4
            h.insert(m + i, extra_columns + 4 * m + self.pi(2, i));
            h.toggle(m + i, extra_columns + 4 * m + self.pi(3, i));
            h.toggle(m + i, extra_columns + 4 * m + self.pi(4, i));
            // block(2,0) = I_M
            h.insert(2 * m + i, extra_columns + i);
            // block(2,1) = Pi_5 + Pi_6
            h.insert(2 * m + i, extra_columns + m + self.pi(5, i));
            h.toggle(2 * m + i, extra_columns + m + self.pi(6, i));
            // block(2,3) = Pi_7 + Pi_8
            h.insert(2 * m + i, extra_columns + 3 * m + self.pi(7, i));
            h.toggle(2 * m + i, extra_columns + 3 * m + self.pi(8, i));
            // block(2,4) = I_M
            h.insert(2 * m + i, extra_columns + 4 * m + i);
        }

        if !matches!(self.rate, AR4JARate::R1_2) {
            // fill specific H_2/3 part
            let extra_columns = match self.rate {
                AR4JARate::R1_2 => unreachable!(),
                AR4JARate::R2_3 => 0,
                AR4JARate::R4_5 => 4 * m,
            };
            for i in 0..m
                invariant m == self.mm(), 128 <= m <= 8192, h.nrows() == 3 * m, h.ncols() == extra_columns_total + 5 * m, extra_columns_total == m * extra_column_blocks, extra_column_blocks <= 6, extra_columns + 2 * m <= extra_columns_total, 
            {
                // block(1,0) = Pi_9 + Pi_10 + Pi_11
                h.insert(m + i, extra_columns + self.pi(9, i));
                h.toggle(m + i, extra_columns + self.pi(10, i));
                h.toggle(m + i, extra_columns + self.pi(11, i));
                // block(1,1) = I_M
                h.insert(m + i, extra_columns + m + i);
                // block(2,0) = I_M
                h.insert(2 * m + i, extra_columns + i);
                // block(2,1) = Pi_12 + Pi_13 + Pi_14
                h.insert(2 * m + i, extra_columns + m + self.pi(12, i));
                h.toggle(2 * m + i, extra_columns + m + self.pi(13, i));
                h.toggle(2 * m + i, extra_columns + m + self.pi(14, i));
            }
        }

        if matches!(self.rate, AR4JARate::R4_5) {
            // fill specific H_4/5 part
            for i in 0..m
                invariant m == self.mm(), 128 <= m <= 8192, h.nrows() == 3 * m, h.ncols() == extra_columns_total + 5 * m, extra_columns_total == m * extra_column_blocks, extra_column_blocks <= 6, extra_column_blocks == 6,
            {
                // block(1,0) = Pi_21 + Pi_22 + Pi_23
                h.insert(m + i, self.pi(21, i));
                h.toggle(m + i, self.pi(22, i));
                h.toggle(m + i, self.pi(23, i));
                // block(1,1) = I_M
                h.insert(m + i, m + i);
                // block(1,2) = Pi_15 + Pi_16 + Pi_17
                h.insert(m + i, 2 * m + self.pi(15, i));
                h.toggle(m + i, 2 * m + self.pi(16, i));
                h.toggle(m + i, 2 * m + self.pi(17, i));
                // block(1,3) = I_M
                h.insert(m + i, 3 * m + i);
                // block(2,0) = I_M
                h.insert(2 * m + i, i);
                // block(2,1) = Pi_24 + Pi_25 + Pi_26
                h.insert(2 * m + i, m + self.pi(24, i));
                h.toggle(2 * m + i, m + self.pi(25, i));
                h.toggle(2 * m + i, m + self.pi(26, i));
                // block(2,2) = I_M
                h.insert(2 * m + i, 2 * m + i);
                // block(2,3) = Pi_18 + Pi_19 + Pi_20
                h.insert(2 * m + i, 3 * m + self.pi(18, i));
                h.toggle(2 * m + i, 3 * m + self.pi(19, i));
                h.toggle(2 * m + i, 3 * m + self.pi(20, i));
            }
        }

        h
    }

    // Table 7.2 in [1]
    fn m(&self) -> (r: M)
        ensures r == self.m_spec()
    {
        match (self.rate, self.k) {
            (AR4JARate::R1_2, AR4JAInfoSize::K1024) => M::M512,
            (AR4JARate::R2_3, AR4JAInfoSize::K1024) => M::M256,
            (AR4JARate::R4_5, AR4JAInfoSize::K1024) => M::M128,
            (AR4JARate::R1_2, AR4JAInfoSize::K4096) => M::M2048,
            (AR4JARate::R2_3, AR4JAInfoSize::K4096) => M::M1024,
            (AR4JARate::R4_5, AR4JAInfoSize::K4096) => M::M512,
            (AR4JARate::R1_2, AR4JAInfoSize::K16384) => M::M8192,
            (AR4JARate::R2_3, AR4JAInfoSize::K16384) => M::M4096,
            (AR4JARate::R4_5, AR4JAInfoSize::K16384) => M::M2048,
        }
    }

    // Table 7-3 and 7-4 in [1]
    fn theta(k: usize) -> (r: usize)
        requires 1 <= k <= 26,
        ensures r == theta_tab()[k - 1] as int, r < 4,
    {
        assert!((1..=26).contains(&k));
        THETA_K[k - 1].into()
    }

    // Table 7-3 and 7-4 in [1]
    fn phi(&self, k: usize, j: usize) -> (r: usize)
        requires 1 <= k <= 26, j < 4,
        ensures r == phi_spec(self.m_spec().log2_spec(), k as int, j as int), r < 8192,
    {
        assert!((1..=26).contains(&k));
        assert!((0..4).contains(&j));
        let m_index = self.m().log2() - M::M128.log2();
        PHI_K[j][k - 1][m_index]
    }

    // Section 7.4.2.4 in [1]
    fn pi(&self, k: usize, i: usize) -> (r: usize)
        requires 1 <= k <= 26, i < self.mm(),
        ensures r < self.mm(),
    {
        let m_log2 = self.m().log2();
        proof { lemma_shl(m_log2); }
        let m = 1 << m_log2;
        assert(m == self.mm() && 128 <= m <= 8192);
        let j = 4 * i / m;
        assert(j < 4) by (nonlinear_arith) requires j == (4 * i) as int / (m as int), i < m, m > 0;
        // & 0x3 gives mod 4
        let ghost theta_j = (theta_tab()[k - 1] as int + j) as usize;
        let a = (Self::theta(k) + j) & 0x3;
        let m_div_4 = 1 << (m_log2 - 2);
        // & (m_div_4 - 1) gives mod M/4
        let ghost phi_i = (phi_spec(self.m_spec().log2_spec(), k as int, j as int) + i) as usize;
        let b = (self.phi(k, j) + i) & (m_div_4 - 1);
        // << (m_log2 - 2) gives * M/4
        proof {
            let sh = (m_log2 - 2) as usize;
            assert(a < 4) by (bit_vector) requires a == (theta_j & 0x3usize);
            assert(b < m_div_4) by (bit_vector) requires b == (phi_i & sub(m_div_4, 1)), m_div_4 == (1usize << sh), 5 <= sh <= 11;
            assert((a << sh) + b < (1usize << ((sh + 2) as usize)) && (a << sh) <= 0xffffusize) by (bit_vector) requires a < 4usize, b < (1usize << sh), 5 <= sh <= 11;
        }
        (a << (m_log2 - 2)) + b
    }
}

enum M {
    M128,
    M256,
    M512,
    M1024,
    M2048,
    M4096,
    M8192,
}

impl M {
    spec fn log2_spec(&self) -> int { match self { M::M128 => 7, M::M256 => 8, M::M512 => 9, M::M1024 => 10, M::M2048 => 11, M::M4096 => 12, M::M8192 => 13 } }

    fn log2(&self) -> (r: usize)
        ensures r == self.log2_spec(), 7 <= r <= 13
    {
        match self {
            M::M128 => 7,
            M::M256 => 8,
            M::M512 => 9,
            M::M1024 => 10,
            M::M2048 => 11,
            M::M4096 => 12,
            M::M8192 => 13,
        }
    }
}

exec static THETA_K: [u8; 26] ensures THETA_K@ == theta_tab(), THETA_K@ == seq![
    3, 0, 1, 2, 2, 3, 0, 1, 0, 1, 2, 0, 2, 3, 0, 1, 2, 0, 1, 2, 0, 1, 2, 1, 2, 3,
] { [
    3, 0, 1, 2, 2, 3, 0, 1, 0, 1, 2, 0, 2, 3, 0, 1, 2, 0, 1, 2, 0, 1, 2, 1, 2, 3,
] }

// Table 7-3 and 7-4 in [1]
exec static PHI_K: [[[usize; 7]; 26]; 4] ensures true { [
    // j = 0
    [
        [1, 59, 16, 160, 108, 226, 1148],
        [22, 18, 103, 241, 126, 618, 2032],
        [0, 52, 105, 185, 238, 404, 249],
        [26, 23, 0, 251, 481, 32, 1807],
        [0, 11, 50, 209, 96, 912, 485],
        [10, 7, 29, 103, 28, 950, 1044],
        [5, 22, 115, 90, 59, 534, 717],
        [18, 25, 30, 184, 225, 63, 873],
        [3, 27, 92, 248, 323, 971, 364],
        [22, 30, 78, 12, 28, 304, 1926],
        [3, 43, 70, 111, 386, 409, 1241],
        [8, 14, 66, 66, 305, 708, 1769],
        [25, 46, 39, 173, 34, 719, 532],
        [25, 62, 84, 42, 510, 176, 768],
        [2, 44, 79, 157, 147, 743, 1138],
        [27, 12, 70, 174, 199, 759, 965],
        [7, 38, 29, 104, 347, 674, 141],
        [7, 47, 32, 144, 391, 958, 1527],
        [15, 1, 45, 43, 165, 984, 505],
        [10, 52, 113, 181, 414, 11, 1312],
        [4, 61, 86, 250, 97, 413, 1840],
        [19, 10, 1, 202, 158, 925, 709],
        [7, 55, 42, 68, 86, 687, 1427],
        [9, 7, 118, 177, 168, 752, 989],
        [26, 12, 33, 170, 506, 867, 1925],
        [17, 2, 126, 89, 489, 323, 270],
    ],
    // j = 1
    [
        [0, 0, 0, 0, 0, 0, 0],
        [27, 32, 53, 182, 375, 767, 1822],
        [30, 21, 74, 249, 436, 227, 203],
        [28, 36, 45, 65, 350, 247, 882],
        [7, 30, 47, 70, 260, 284, 1989],
        [1, 29, 0, 141, 84, 370, 957],
        [8, 44, 59, 237, 318, 482, 1705],
        [20, 29, 102, 77, 382, 273, 1083],
        [26, 39, 25, 55, 169, 886, 1072],
        [24, 14, 3, 12, 213, 634, 354],
        [4, 22, 88, 227, 67, 762, 1942],
        [12, 15, 65, 42, 313, 184, 446],
        [23, 48, 62, 52, 242, 696, 1456],
        [15, 55, 68, 243, 188, 413, 1940],
        [15, 39, 91, 179, 1, 854, 1660],
        [22, 11, 70, 250, 306, 544, 1661],
        [31, 1, 115, 247, 397, 864, 587],
        [3, 50, 31, 164, 80, 82, 708],
        [29, 40, 121, 17, 33, 1009, 1466],
        [21, 62, 45, 31, 7, 437, 433],
        [2, 27, 56, 149, 447, 36, 1345],
        [5, 38, 54, 105, 336, 562, 867],
        [11, 40, 108, 183, 424, 816, 1551],
        [26, 15, 14, 153, 134, 452, 2041],
        [9, 11, 30, 177, 152, 290, 1383],
        [17, 18, 116, 19, 492, 778, 1790],
    ],
    // j = 2
    [
        [0, 0, 0, 0, 0, 0, 0],
        [12, 46, 8, 35, 219, 254, 318],
        [30, 45, 119, 167, 16, 790, 494],
        [18, 27, 89, 214, 263, 642, 1467],
        [10, 48, 31, 84, 415, 248, 757],
        [16, 37, 122, 206, 403, 899, 1085],
        [13, 41, 1, 122, 184, 328, 1630],
        [9, 13, 69, 67, 279, 518, 64],
        [7, 9, 92, 147, 198, 477, 689],
        [15, 49, 47, 54, 307, 404, 1300],
        [16, 36, 11, 23, 432, 698, 148],
        [18, 10, 31, 93, 240, 160, 777],
        [4, 11, 19, 20, 454, 497, 1431],
        [23, 18, 66, 197, 294, 100, 659],
        [5, 54, 49, 46, 479, 518, 352],
        [3, 40, 81, 162, 289, 92, 1177],
        [29, 27, 96, 101, 373, 464, 836],
        [11, 35, 38, 76, 104, 592, 1572],
        [4, 25, 83, 78, 141, 198, 348],
        [8, 46, 42, 253, 270, 856, 1040],
        [2, 24, 58, 124, 439, 235, 779],
        [11, 33, 24, 143, 333, 134, 476],
        [11, 18, 25, 63, 399, 542, 191],
        [3, 37, 92, 41, 14, 545, 1393],
        [15, 35, 38, 214, 277, 777, 1752],
        [13, 21, 120, 70, 412, 483, 1627],
    ],
    // j = 3
    [
        [0, 0, 0, 0, 0, 0, 0],
        [13, 44, 35, 162, 312, 285, 1189],
        [19, 51, 97, 7, 503, 554, 458],
        [14, 12, 112, 31, 388, 809, 460],
        [15, 15, 64, 164, 48, 185, 1039],
        [20, 12, 93, 11, 7, 49, 1000],
        [17, 4, 99, 237, 185, 101, 1265],
        [4, 7, 94, 125, 328, 82, 1223],
        [4, 2, 103, 133, 254, 898, 874],
        [11, 30, 91, 99, 202, 627, 1292],
        [17, 53, 3, 105, 285, 154, 1491],
        [20, 23, 6, 17, 11, 65, 631],
        [8, 29, 39, 97, 168, 81, 464],
        [22, 37, 113, 91, 127, 823, 461],
        [19, 42, 92, 211, 8, 50, 844],
        [15, 48, 119, 128, 437, 413, 392],
        [5, 4, 74, 82, 475, 462, 922],
        [21, 10, 73, 115, 85, 175, 256],
        [17, 18, 116, 248, 419, 715, 1986],
        [9, 56, 31, 62, 459, 537, 19],
        [20, 9, 127, 26, 468, 722, 266],
        [18, 11, 98, 140, 209, 37, 471],
        [31, 23, 23, 121, 311, 488, 1166],
        [13, 8, 38, 12, 211, 179, 1300],
        [2, 7, 18, 41, 510, 430, 1033],
        [18, 24, 62, 249, 320, 264, 1606],
    ],
] }


} // verus!
fn main() {}
