use vstd::prelude::*;
verus! {

use vstd::std_specs::cmp::*;
// ---------------- ghost spec layer (checker side) ----------------
pub uninterp spec fn parity_ok(h: SparseMatrix, bits: Seq<bool>) -> bool;
pub open spec fn in_hd(x: f64, b: bool) -> bool { le_ensures::<f64>(x, 0.0f64, b) }
pub uninterp spec fn f64_hd(x: f64) -> bool;
#[verifier::external_body]
pub proof fn axiom_f64_le_functional(x: f64, b: bool)
    ensures in_hd(x, b) <==> b == f64_hd(x) {}
pub open spec fn bits_u8(bits: Seq<bool>) -> Seq<u8> { bits.map_values(|b: bool| if b { 1u8 } else { 0u8 }) }
#[derive(PartialEq, Eq, Debug, Clone)]
pub struct SparseMatrix { rows: Vec<Vec<usize>>, cols: Vec<Vec<usize>> }
#[derive(Debug, Clone, Eq, PartialEq, Hash)]
pub struct DecoderOutput {
    pub codeword: Vec<u8>,
    pub iterations: usize,
}

#[derive(Debug, Copy, Clone, Eq, PartialEq, Default, Hash)]
pub struct Message<T> {
    pub source: usize,
    pub value: T,
}

#[derive(Debug, Copy, Clone, Eq, PartialEq, Default, Hash)]
pub struct SentMessage<T> {
    pub dest: usize,
    pub value: T,
}

#[derive(Debug, Clone, Eq, PartialEq, Default, Hash)]
struct Messages<T> {
    per_destination: Box<[Box<[Message<T>]>]>,
}


#[derive(Debug, Clone, Eq, PartialEq, Default, Hash)]
struct SentMessages<T> {
    per_source: Box<[Box<[SentMessage<T>]>]>,
}


pub trait DecoderArithmetic: std::fmt::Debug + Send {
    type Llr: std::fmt::Debug + Copy + Default + Send;
    type CheckMessage: std::fmt::Debug + Copy + Default + Send;
    type VarMessage: std::fmt::Debug + Copy + Default + Send;
    type VarLlr: std::fmt::Debug + Copy + Default + Send;

    spec fn rules(&self) -> int;
    spec fn spec_hd(rules: int, llr: Self::Llr) -> bool;
    fn input_llr_quantize(&self, llr: f64) -> Self::Llr;

    fn llr_hard_decision(&self, llr: Self::Llr) -> (b: bool)
        ensures b == Self::spec_hd(self.rules(), llr);

    fn llr_to_var_message(&self, llr: Self::Llr) -> Self::VarMessage;

    fn llr_to_var_llr(&self, llr: Self::Llr) -> Self::VarLlr;

    fn var_llr_to_llr(&self, var_llr: Self::VarLlr) -> Self::Llr;

    fn send_check_messages<F>(&mut self, var_messages: &[Message<Self::VarMessage>], send: F)
    where
        F: FnMut(SentMessage<Self::CheckMessage>);

    fn send_var_messages<F>(
        &mut self,
        input_llr: Self::Llr,
        check_messages: &[Message<Self::CheckMessage>],
        send: F,
    ) -> Self::Llr
    where
        F: FnMut(SentMessage<Self::VarMessage>);

    fn update_check_messages_and_vars(
        &mut self,
        check_messages: &mut [SentMessage<Self::CheckMessage>],
        vars: &mut [Self::VarLlr],
    );
}



pub uninterp spec fn init_in<A: DecoderArithmetic>(rules: int, llrs: Seq<f64>) -> Seq<A::Llr>;
pub uninterp spec fn init_vm<A: DecoderArithmetic>(rules: int, h: SparseMatrix, llrs: Seq<f64>) -> Messages<A::VarMessage>;
pub uninterp spec fn cn<A: DecoderArithmetic>(rules: int, h: SparseMatrix, vm: Messages<A::VarMessage>) -> Messages<A::CheckMessage>;
pub uninterp spec fn vn_out<A: DecoderArithmetic>(rules: int, h: SparseMatrix, input: Seq<A::Llr>, cm: Messages<A::CheckMessage>) -> Seq<A::Llr>;
pub uninterp spec fn vn_vm<A: DecoderArithmetic>(rules: int, h: SparseMatrix, input: Seq<A::Llr>, cm: Messages<A::CheckMessage>) -> Messages<A::VarMessage>;

pub open spec fn vm_k<A: DecoderArithmetic>(rules: int, h: SparseMatrix, llrs: Seq<f64>, k: nat) -> Messages<A::VarMessage>
    decreases k
{
    if k == 0 { init_vm::<A>(rules, h, llrs) }
    else { vn_vm::<A>(rules, h, init_in::<A>(rules, llrs), cn::<A>(rules, h, vm_k::<A>(rules, h, llrs, (k - 1) as nat))) }
}
pub open spec fn out_k<A: DecoderArithmetic>(rules: int, h: SparseMatrix, llrs: Seq<f64>, k: nat) -> Seq<A::Llr>
{
    if k == 0 { init_in::<A>(rules, llrs) }
    else { vn_out::<A>(rules, h, init_in::<A>(rules, llrs), cn::<A>(rules, h, vm_k::<A>(rules, h, llrs, (k - 1) as nat))) }
}
pub open spec fn hd_bits<A: DecoderArithmetic>(rules: int, out: Seq<A::Llr>) -> Seq<bool> {
    out.map_values(|l: A::Llr| A::spec_hd(rules, l))
}
pub open spec fn ok_at<A: DecoderArithmetic>(rules: int, h: SparseMatrix, llrs: Seq<f64>, k: nat) -> bool {
    parity_ok(h, hd_bits::<A>(rules, out_k::<A>(rules, h, llrs, k)))
}
pub open spec fn sgn(llrs: Seq<f64>) -> Seq<bool> { llrs.map_values(|x: f64| f64_hd(x)) }

#[verifier::external_body]
fn check_llrs<T, F>(h: &SparseMatrix, llrs: &[T], hard_decision: F) -> (b: bool)
where T: Copy, F: Fn(T) -> bool,
    requires forall|x: T| #[trigger] hard_decision.requires((x,)),
    ensures exists|bits: Seq<bool>| bits.len() == llrs.len() && (forall|i: int| 0 <= i < llrs.len() ==> hard_decision.ensures((#[trigger] llrs[i],), bits[i])) && b == #[trigger] parity_ok(*h, bits),
{ unimplemented!() }
#[verifier::external_body]
fn hard_decisions<T, F>(llrs: &[T], hard_decision: F) -> (v: Vec<u8>)
where T: Copy, F: Fn(T) -> bool,
    requires forall|x: T| #[trigger] hard_decision.requires((x,)),
    ensures v.len() == llrs.len(),
        forall|i: int| 0 <= i < llrs.len() ==> (#[trigger] v[i] == 0u8 || v[i] == 1u8) && hard_decision.ensures((llrs[i],), v[i] == 1u8),
{ unimplemented!() }

mod flooding {
use super::*;
#[derive(Debug, Clone, PartialEq)]
pub struct Decoder<A: DecoderArithmetic> {
    arithmetic: A,
    h: SparseMatrix,
    input_llrs: Box<[A::Llr]>,
    output_llrs: Box<[A::Llr]>,
    check_messages: Messages<A::CheckMessage>,
    variable_messages: Messages<A::VarMessage>,
}


impl<A: DecoderArithmetic> Decoder<A> {
    pub closed spec fn n(&self) -> int { self.input_llrs.len() as int }
    pub closed spec fn rules(&self) -> int { self.arithmetic.rules() }
    pub closed spec fn hmat(&self) -> SparseMatrix { self.h }
    pub closed spec fn shape_ok(&self) -> bool { self.input_llrs.len() == self.output_llrs.len() }

    pub fn decode(
        &mut self,
        llrs: &[f64],
        max_iterations: usize,
    ) -> (res: Result<DecoderOutput, DecoderOutput>)
        requires llrs.len() == old(self).n(), old(self).shape_ok(), max_iterations < usize::MAX,
        ensures
            final(self).rules() == old(self).rules(), final(self).hmat() == old(self).hmat(), final(self).n() == old(self).n(), final(self).shape_ok(),
            // ---- C10 form: result is a function of (rules, h, llrs, limit) only
            parity_ok(old(self).hmat(), sgn(llrs@)) ==> (res is Ok && res->Ok_0.iterations == 0 && res->Ok_0.codeword@ == bits_u8(sgn(llrs@))),
            !parity_ok(old(self).hmat(), sgn(llrs@)) ==> (
                (res is Ok ==> 1 <= res->Ok_0.iterations <= max_iterations
                    && ok_at::<A>(old(self).rules(), old(self).hmat(), llrs@, res->Ok_0.iterations as nat)
                    && (forall|j: nat| 1 <= j < res->Ok_0.iterations ==> !ok_at::<A>(old(self).rules(), old(self).hmat(), llrs@, j))
                    && res->Ok_0.codeword@ == bits_u8(hd_bits::<A>(old(self).rules(), out_k::<A>(old(self).rules(), old(self).hmat(), llrs@, res->Ok_0.iterations as nat))))
                && (res is Err ==> res->Err_0.iterations == max_iterations
                    && (forall|j: nat| 1 <= j <= max_iterations ==> !ok_at::<A>(old(self).rules(), old(self).hmat(), llrs@, j))
                    && res->Err_0.codeword@ == bits_u8(hd_bits::<A>(old(self).rules(), out_k::<A>(old(self).rules(), old(self).hmat(), llrs@, max_iterations as nat))))
            ),
    {
        assert!(llrs.len() == self.input_llrs.len());
        let input_llrs_hard_decision = |x: f64| -> (b: bool) ensures in_hd(x, b) { x <= 0.0 };
        let ghost h0 = self.h;
        let ghost r0 = self.arithmetic.rules();
        proof {
            assert forall|i: int| 0 <= i < llrs.len() implies in_hd(#[trigger] llrs[i], sgn(llrs@)[i]) by { axiom_f64_le_functional(llrs[i], sgn(llrs@)[i]); }
        }
        let ghost s0 = sgn(llrs@);
        let chk0 = check_llrs(&self.h, llrs, input_llrs_hard_decision);
        proof {
            let bits = choose|bits: Seq<bool>| bits.len() == llrs.len() && (forall|i: int| 0 <= i < llrs.len() ==> input_llrs_hard_decision.ensures((#[trigger] llrs[i],), bits[i])) && chk0 == #[trigger] parity_ok(self.h, bits);
            assert forall|i: int| 0 <= i < llrs.len() implies bits[i] == s0[i] by { assert(input_llrs_hard_decision.ensures((llrs[i],), bits[i])); axiom_f64_le_functional(llrs[i], bits[i]); }
            assert(bits =~= s0);
            assert(chk0 == parity_ok(self.h, s0));
        }
        if chk0 {
            // No bit errors case
            let cw = hard_decisions(llrs, input_llrs_hard_decision);
            proof {
                assert forall|i: int| 0 <= i < llrs.len() implies cw@[i] == bits_u8(sgn(llrs@))[i] by { axiom_f64_le_functional(llrs[i], cw@[i] == 1u8); }
                assert(cw@ =~= bits_u8(sgn(llrs@)));
            }
            return Ok(DecoderOutput {
                codeword: cw,
                iterations: 0,
            });
        }
        self.initialize(llrs);
        for iteration in 1..=max_iterations
            invariant
                self.h == h0, self.arithmetic.rules() == r0, h0 == old(self).h, r0 == old(self).arithmetic.rules(), llrs.len() == old(self).input_llrs.len(), self.input_llrs.len() == llrs.len(), self.output_llrs.len() == llrs.len(),
                !parity_ok(h0, sgn(llrs@)), max_iterations < usize::MAX,
                self.input_llrs@ == init_in::<A>(r0, llrs@),
                self.variable_messages == vm_k::<A>(r0, h0, llrs@, (iteration - 1) as nat),
                self.output_llrs@ == out_k::<A>(r0, h0, llrs@, (iteration - 1) as nat),
                forall|j: nat| 1 <= j < iteration ==> !ok_at::<A>(r0, h0, llrs@, j),
        {
            self.process_check_nodes();
            self.process_variable_nodes();
            proof {
                assert(self.output_llrs@ == out_k::<A>(r0, h0, llrs@, iteration as nat));
                assert(self.variable_messages == vm_k::<A>(r0, h0, llrs@, iteration as nat));
            }
            let ghost bits = hd_bits::<A>(r0, self.output_llrs@);
            let chk = check_llrs(&self.h, &self.output_llrs, |x: A::Llr| -> (b: bool) ensures b == A::spec_hd(r0, x) {
                self.arithmetic.llr_hard_decision(x)
            });
            proof {
                let bb = choose|bb: Seq<bool>| bb.len() == self.output_llrs.len() && (forall|i: int| 0 <= i < self.output_llrs.len() ==> (#[trigger] bb[i]) == A::spec_hd(r0, self.output_llrs[i])) && chk == parity_ok(self.h, bb);
                assert(bb =~= bits);
                assert(chk == ok_at::<A>(r0, h0, llrs@, iteration as nat));
            }
            proof {
                assert(self.variable_messages == vm_k::<A>(r0, h0, llrs@, iteration as nat));
                assert(self.output_llrs@ == out_k::<A>(r0, h0, llrs@, iteration as nat));
            }
            if chk {
                // Decode succeeded
                let cw = hard_decisions(&self.output_llrs, |x: A::Llr| -> (b: bool) ensures b == A::spec_hd(r0, x) {
                        self.arithmetic.llr_hard_decision(x)
                    });
                proof { assert(cw@ =~= bits_u8(bits)); }
                return Ok(DecoderOutput {
                    codeword: cw,
                    iterations: iteration,
                });
            }
        }
        // Decode failed
        let ghost bits = hd_bits::<A>(r0, self.output_llrs@);
        let cw = hard_decisions(&self.output_llrs, |x: A::Llr| -> (b: bool) ensures b == A::spec_hd(r0, x) { self.arithmetic.llr_hard_decision(x) });
        proof { assert(cw@ =~= bits_u8(bits)); }
        Err(DecoderOutput {
            codeword: cw,
            iterations: max_iterations,
        })
    }

    #[verifier::external_body]
    fn initialize(&mut self, llrs: &[f64])
        requires llrs.len() == old(self).input_llrs.len(),
        ensures final(self).h == old(self).h, final(self).arithmetic.rules() == old(self).arithmetic.rules(),
            final(self).input_llrs.len() == old(self).input_llrs.len(), final(self).output_llrs.len() == old(self).output_llrs.len(),
            final(self).input_llrs@ == init_in::<A>(old(self).arithmetic.rules(), llrs@),
            final(self).variable_messages == init_vm::<A>(old(self).arithmetic.rules(), old(self).h, llrs@),
            final(self).check_messages == old(self).check_messages,
            final(self).output_llrs@ == old(self).output_llrs@,
    { unimplemented!() }
    #[verifier::external_body]
    fn process_check_nodes(&mut self)
        ensures final(self).h == old(self).h, final(self).arithmetic.rules() == old(self).arithmetic.rules(),
            final(self).input_llrs == old(self).input_llrs, final(self).output_llrs == old(self).output_llrs,
            final(self).variable_messages == old(self).variable_messages,
            final(self).check_messages == cn::<A>(old(self).arithmetic.rules(), old(self).h, old(self).variable_messages),
    { unimplemented!() }
    #[verifier::external_body]
    fn process_variable_nodes(&mut self)
        ensures final(self).h == old(self).h, final(self).arithmetic.rules() == old(self).arithmetic.rules(),
            final(self).input_llrs == old(self).input_llrs, final(self).output_llrs.len() == old(self).output_llrs.len(),
            final(self).check_messages == old(self).check_messages,
            final(self).output_llrs@ == vn_out::<A>(old(self).arithmetic.rules(), old(self).h, old(self).input_llrs@, old(self).check_messages),
            final(self).variable_messages == vn_vm::<A>(old(self).arithmetic.rules(), old(self).h, old(self).input_llrs@, old(self).check_messages),
    { unimplemented!() }
}
}
} // verus!
fn main() {}
