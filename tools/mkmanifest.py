#!/usr/bin/env python3
"""Regenerate /verif/MANIFEST.json from lib/props.py and lib/manifest_text.py"""
import json, os, sys
V = os.path.dirname(os.path.dirname(os.path.abspath(__file__)))
sys.path.insert(0, os.path.join(V, "lib"))
from props import PROPS
import manifest_text as T

checks = []
for pid in sorted(PROPS):
    c = PROPS[pid]
    t = T.CHECKS[pid]
    checks.append({
        "property_id": pid,
        "quick_cmd": f"./check {pid} --tier quick",
        "thorough_cmd": f"./check {pid} --tier thorough",
        "evidence_file": f"/verif/evidence/{pid}.json",
        "replay_cmd_template": f"./check {pid} --replay {{path}}",
        "engine": t["engine"],
        "level_claimed": {"category": c["level"], "text": t["text"], "design_ref": t["design_ref"]},
        "level_note": t["note"],
        "technique": t["technique"],
    })
na = [{"property_id": p, "reason": r} for p, r in sorted(T.NOT_APPLICABLE.items()) if p not in PROPS]
m = {
    "version": 1,
    "setup_cmd": "./setup.sh",
    "hooks": T.HOOKS,
    "engines": T.ENGINES,
    "checks": checks,
    "notes": T.NOTES,
    "not_applicable": na,
}
json.dump(m, open(os.path.join(V, "MANIFEST.json"), "w"), indent=1)
print("MANIFEST.json:", len(checks), "checks,", len(na), "not applicable")
