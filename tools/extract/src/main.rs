//! extract: copies the *source bytes* of named items out of a Rust file of
//! /repo and splices Verus contract text into them at anchors computed from
//! the syn AST of the current source.  It never pretty-prints and never
//! re-types a body.  See /verif/DESIGN.md section 3.1.
//!
//! usage: extract <request.json>     (response JSON on stdout)
//! exit status: 0 ok, 2 = lost item / lost anchor / signature drift (undecided)

use proc_macro2::Span;
use serde::{Deserialize, Serialize};
use syn::spanned::Spanned;
use syn::visit::Visit;

#[derive(Deserialize)]
struct Request {
    file: String,
    items: Vec<ItemReq>,
}

#[derive(Deserialize)]
struct ItemReq {
    /// e.g. "impl SparseMatrix::insert", "struct SparseMatrix", "fn check_llrs",
    /// "trait DecoderArithmetic", "static THETA_K", "impl LdpcDecoder for Decoder::decode"
    path: String,
    /// "verbatim" (default) | "trusted" (external_body, body dropped) | "sig" (signature text only)
    #[serde(default)]
    mode: Option<String>,
    #[serde(default)]
    splices: Vec<Splice>,
    /// whitespace-normalised signature the contract was written for (checked when present)
    #[serde(default)]
    expect_sig: Option<String>,
    /// keep doc comments? default false (they are dropped: they are not code)
    #[serde(default)]
    keep_docs: bool,
    /// for trusted items: token hash of the body the trusted contract was validated against
    #[serde(default)]
    expect_body: Option<String>,
}

#[derive(Deserialize, Clone)]
struct Splice {
    at: String,
    #[serde(default)]
    text: String,
    /// for `sig`: name of the return value
    #[serde(default)]
    ret: Option<String>,
    /// for `closure[n].header`: parameter types by position
    #[serde(default)]
    types: Option<Vec<String>>,
    /// for `loop[n].iter`: ghost iterator name
    #[serde(default)]
    name: Option<String>,
    /// expected node kind: for | while | loop
    #[serde(default)]
    expect: Option<String>,
    #[serde(default)]
    label: Option<String>,
}

#[derive(Serialize)]
struct ItemResp {
    path: String,
    text: String,
    src_line_start: usize,
    src_line_end: usize,
    /// for each output line (0-based within text): source line it came from, or 0 when spliced
    linemap: Vec<usize>,
    /// label of the splice that produced an output line (empty when from source)
    linelabel: Vec<String>,
    normalisations: Vec<String>,
    signature: String,
    shape: Shape,
    src_sha_fnv: String,
    /// syntactic write set: fields f with `self.f` assigned, mutably borrowed, or the receiver of a
    /// method not known to take `&self`
    self_writes: Vec<String>,
    self_reads: Vec<String>,
    /// methods called directly on `self`
    self_calls: Vec<String>,
    /// FNV-64 of the function body's token stream (insensitive to comments and whitespace)
    body_tokens_fnv: String,
}

#[derive(Serialize, Default, Clone)]
struct Shape {
    loops: usize,
    ifs: usize,
    closures: usize,
    matches: usize,
    stmts: usize,
}

#[derive(Serialize)]
struct Response {
    file: String,
    items: Vec<ItemResp>,
}

struct Lost(String);

fn lost<T>(msg: impl Into<String>) -> Result<T, Lost> {
    Err(Lost(msg.into()))
}

#[derive(Clone)]
struct Edit {
    start: usize,
    end: usize,
    text: String,
    seq: usize,
    label: String,
}

struct Edits {
    v: Vec<Edit>,
}

impl Edits {
    fn new() -> Self {
        Edits { v: Vec::new() }
    }
    fn ins(&mut self, at: usize, text: impl Into<String>, label: &str) {
        let seq = self.v.len();
        self.v.push(Edit { start: at, end: at, text: text.into(), seq, label: label.to_string() });
    }
    fn rep(&mut self, start: usize, end: usize, text: impl Into<String>, label: &str) {
        let seq = self.v.len();
        self.v.push(Edit { start, end, text: text.into(), seq, label: label.to_string() });
    }
}

fn br(s: Span) -> (usize, usize) {
    let r = s.byte_range();
    (r.start, r.end)
}

fn norm_ws(s: &str) -> String {
    s.split_whitespace().collect::<Vec<_>>().join(" ")
}

fn fnv(s: &str) -> String {
    let mut h: u64 = 0xcbf29ce484222325;
    for b in s.as_bytes() {
        h ^= *b as u64;
        h = h.wrapping_mul(0x100000001b3);
    }
    format!("{:016x}", h)
}

// ---------------------------------------------------------------------------
// item lookup

enum Found<'a> {
    Item(&'a syn::Item),
    ImplFn(&'a syn::ItemImpl, &'a syn::ImplItemFn),
    TraitFn(&'a syn::ItemTrait, &'a syn::TraitItemFn),
    ImplConst(&'a syn::ImplItemConst),
}

fn type_last_ident(t: &syn::Type) -> Option<String> {
    match t {
        syn::Type::Path(p) => p.path.segments.last().map(|s| s.ident.to_string()),
        syn::Type::Reference(r) => type_last_ident(&r.elem),
        _ => None,
    }
}

fn path_last_ident(p: &syn::Path) -> Option<String> {
    p.segments.last().map(|s| s.ident.to_string())
}

fn find_item<'a>(items: &'a [syn::Item], path: &str) -> Result<Found<'a>, Lost> {
    let path = path.trim();
    // optional "mod a::" prefixes
    if let Some(rest) = path.strip_prefix("mod ") {
        let (m, rest) = match rest.split_once("::") {
            Some(x) => x,
            None => return lost(format!("bad mod path {path}")),
        };
        for it in items {
            if let syn::Item::Mod(im) = it {
                if im.ident == m.trim() {
                    if let Some((_, inner)) = &im.content {
                        return find_item(inner, rest);
                    }
                }
            }
        }
        return lost(format!("module {m} not found"));
    }
    let (kind, rest) = match path.split_once(' ') {
        Some(x) => x,
        None => return lost(format!("bad item path {path}")),
    };
    let rest = rest.trim();
    let mut hits: Vec<Found<'a>> = Vec::new();
    match kind {
        "struct" | "enum" | "static" | "const" | "type" | "fn" | "use" | "macro" => {
            for it in items {
                let name = match (kind, it) {
                    ("struct", syn::Item::Struct(x)) => Some(x.ident.to_string()),
                    ("enum", syn::Item::Enum(x)) => Some(x.ident.to_string()),
                    ("static", syn::Item::Static(x)) => Some(x.ident.to_string()),
                    ("const", syn::Item::Const(x)) => Some(x.ident.to_string()),
                    ("type", syn::Item::Type(x)) => Some(x.ident.to_string()),
                    ("fn", syn::Item::Fn(x)) => Some(x.sig.ident.to_string()),
                    _ => None,
                };
                if name.as_deref() == Some(rest) {
                    hits.push(Found::Item(it));
                }
            }
        }
        "trait" => {
            let (tname, meth) = match rest.split_once("::") {
                Some((a, b)) => (a.trim(), Some(b.trim())),
                None => (rest, None),
            };
            for it in items {
                if let syn::Item::Trait(t) = it {
                    if t.ident == tname {
                        match meth {
                            None => hits.push(Found::Item(it)),
                            Some(m) => {
                                for ti in &t.items {
                                    if let syn::TraitItem::Fn(f) = ti {
                                        if f.sig.ident == m {
                                            hits.push(Found::TraitFn(t, f));
                                        }
                                    }
                                }
                            }
                        }
                    }
                }
            }
        }
        "impl" => {
            // "impl [Trait for] Type::method"  or "impl [Trait for] Type" (whole impl)
            let (head, meth) = match rest.rsplit_once("::") {
                Some((a, b)) => (a.trim(), Some(b.trim())),
                None => (rest, None),
            };
            let (trait_name, ty_name) = match head.split_once(" for ") {
                Some((t, s)) => (Some(t.trim()), s.trim()),
                None => (None, head),
            };
            for it in items {
                if let syn::Item::Impl(im) = it {
                    if type_last_ident(&im.self_ty).as_deref() != Some(ty_name) {
                        continue;
                    }
                    let this_trait = im.trait_.as_ref().and_then(|(_, p, _)| path_last_ident(p));
                    match (trait_name, &this_trait) {
                        (Some(t), Some(tt)) if t == tt => {}
                        (Some(_), _) => continue,
                        (None, Some(_)) => continue, // a bare "impl T::f" means the inherent impl
                        (None, None) => {}
                    }
                    match meth {
                        None => hits.push(Found::Item(it)),
                        Some(m) => {
                            for ii in &im.items {
                                if let syn::ImplItem::Fn(f) = ii {
                                    if f.sig.ident == m {
                                        hits.push(Found::ImplFn(im, f));
                                    }
                                }
                                if let syn::ImplItem::Const(c) = ii {
                                    if c.ident == m {
                                        hits.push(Found::ImplConst(c));
                                    }
                                }
                            }
                        }
                    }
                }
            }
        }
        _ => return lost(format!("unknown item kind in path {path}")),
    }
    match hits.len() {
        0 => lost(format!("item not found: {path}")),
        1 => Ok(hits.pop().unwrap()),
        n => lost(format!("item path ambiguous ({n} matches): {path}")),
    }
}

// ---------------------------------------------------------------------------
// function shape (pre-order ordinals)

#[derive(Default)]
struct Nodes<'a> {
    loops: Vec<&'a syn::Expr>,
    ifs: Vec<&'a syn::ExprIf>,
    closures: Vec<&'a syn::ExprClosure>,
    matches: Vec<&'a syn::ExprMatch>,
    macros: Vec<&'a syn::Macro>,
    fors: Vec<&'a syn::ExprForLoop>,
    derefs: Vec<&'a syn::ExprUnary>,
}

impl<'a> Visit<'a> for Nodes<'a> {
    fn visit_expr(&mut self, e: &'a syn::Expr) {
        match e {
            syn::Expr::ForLoop(f) => {
                self.loops.push(e);
                self.fors.push(f);
            }
            syn::Expr::While(_) | syn::Expr::Loop(_) => self.loops.push(e),
            syn::Expr::If(i) => self.ifs.push(i),
            syn::Expr::Closure(c) => self.closures.push(c),
            syn::Expr::Match(m) => self.matches.push(m),
            syn::Expr::Unary(u) if matches!(u.op, syn::UnOp::Deref(_)) => self.derefs.push(u),
            _ => {}
        }
        syn::visit::visit_expr(self, e);
    }
    fn visit_macro(&mut self, m: &'a syn::Macro) {
        self.macros.push(m);
        syn::visit::visit_macro(self, m);
    }
}

fn loop_body(e: &syn::Expr) -> &syn::Block {
    match e {
        syn::Expr::ForLoop(f) => &f.body,
        syn::Expr::While(w) => &w.body,
        syn::Expr::Loop(l) => &l.body,
        _ => unreachable!(),
    }
}

fn loop_kind(e: &syn::Expr) -> &'static str {
    match e {
        syn::Expr::ForLoop(_) => "for",
        syn::Expr::While(_) => "while",
        syn::Expr::Loop(_) => "loop",
        _ => unreachable!(),
    }
}

fn parse_idx(seg: &str, name: &str) -> Option<usize> {
    let s = seg.strip_prefix(name)?.strip_prefix('[')?.strip_suffix(']')?;
    s.parse().ok()
}

/// resolve "<block-anchor>" relative to a block: start | end | stmt[k].before | stmt[k].after
fn block_anchor(b: &syn::Block, segs: &[&str], whole: &str) -> Result<usize, Lost> {
    match segs {
        ["start"] => Ok(br(b.brace_token.span.open()).1),
        ["end"] => Ok(br(b.brace_token.span.close()).0),
        [s, pos] if s.starts_with("stmt[") => {
            let k = parse_idx(s, "stmt").ok_or_else(|| Lost(format!("bad anchor {whole}")))?;
            let st = b.stmts.get(k).ok_or_else(|| Lost(format!("lost anchor {whole}: block has {} statements", b.stmts.len())))?;
            let (s0, s1) = br(st.span());
            match *pos {
                "before" => Ok(s0),
                "after" => Ok(s1),
                _ => lost(format!("bad anchor {whole}")),
            }
        }
        _ => lost(format!("bad anchor {whole}")),
    }
}

// ---------------------------------------------------------------------------
// syntactic frame analysis: which fields of `self` can a function write?

const IMMUTABLE_METHODS: &[&str] = &[
    "iter", "len", "is_empty", "get", "contains", "iter_row", "iter_col", "iter_all", "num_rows", "num_cols",
    "row_weight", "col_weight", "clone", "as_ref", "borrow", "first", "last", "to_vec", "to_owned", "as_slice",
    // `&self` methods of the DecoderArithmetic trait
    "llr_hard_decision", "var_llr_to_llr", "llr_to_var_llr", "llr_to_var_message", "input_llr_quantize",
    "eq", "ne", "cmp", "partial_cmp", "into", "copied", "cloned",
];

#[derive(Default)]
struct Frame {
    writes: std::collections::BTreeSet<String>,
    reads: std::collections::BTreeSet<String>,
    calls: std::collections::BTreeSet<String>,
}

/// if `e` is a place expression rooted at `self.<field>`, return the field; `Some("")` for `self` itself
fn self_root(e: &syn::Expr) -> Option<String> {
    match e {
        syn::Expr::Path(p) if p.path.is_ident("self") => Some(String::new()),
        syn::Expr::Field(f) => {
            let base = self_root(&f.base)?;
            if base.is_empty() {
                match &f.member {
                    syn::Member::Named(id) => Some(id.to_string()),
                    syn::Member::Unnamed(i) => Some(i.index.to_string()),
                }
            } else {
                Some(base)
            }
        }
        syn::Expr::Index(i) => self_root(&i.expr),
        syn::Expr::Paren(p) => self_root(&p.expr),
        syn::Expr::Unary(u) if matches!(u.op, syn::UnOp::Deref(_)) => self_root(&u.expr),
        syn::Expr::Reference(r) => self_root(&r.expr),
        _ => None,
    }
}

impl<'a> Visit<'a> for Frame {
    fn visit_expr(&mut self, e: &'a syn::Expr) {
        match e {
            syn::Expr::Assign(a) => {
                if let Some(f) = self_root(&a.left) {
                    self.writes.insert(if f.is_empty() { "*".into() } else { f });
                }
            }
            syn::Expr::Binary(b) => {
                use syn::BinOp::*;
                if matches!(b.op, AddAssign(_) | SubAssign(_) | MulAssign(_) | DivAssign(_) | RemAssign(_) | BitXorAssign(_)
                    | BitAndAssign(_) | BitOrAssign(_) | ShlAssign(_) | ShrAssign(_)) {
                    if let Some(f) = self_root(&b.left) {
                        self.writes.insert(if f.is_empty() { "*".into() } else { f });
                    }
                }
            }
            syn::Expr::Reference(r) => {
                if let Some(f) = self_root(&r.expr) {
                    let f = if f.is_empty() { "*".to_string() } else { f };
                    if r.mutability.is_some() {
                        self.writes.insert(f);
                    } else {
                        self.reads.insert(f);
                    }
                }
            }
            syn::Expr::MethodCall(m) => {
                if let Some(f) = self_root(&m.receiver) {
                    let name = m.method.to_string();
                    if f.is_empty() {
                        self.calls.insert(name);
                    } else if IMMUTABLE_METHODS.contains(&name.as_str()) {
                        self.reads.insert(f);
                    } else {
                        self.writes.insert(f);
                    }
                }
            }
            syn::Expr::Field(_) => {
                if let Some(f) = self_root(e) {
                    if !f.is_empty() {
                        self.reads.insert(f);
                    }
                }
            }
            _ => {}
        }
        syn::visit::visit_expr(self, e);
    }
}

// ---------------------------------------------------------------------------
// normalisations

fn collect_ref_pats(p: &syn::Pat, edits: &mut Edits, names: &mut Vec<String>) {
    match p {
        syn::Pat::Reference(r) => {
            if let syn::Pat::Ident(pi) = &*r.pat {
                if pi.by_ref.is_none() && pi.subpat.is_none() && r.mutability.is_none() {
                    let (s, e) = br(r.span());
                    let id = pi.ident.to_string();
                    edits.rep(s, e, format!("{id}__r"), "N1");
                    names.push(id);
                }
            }
        }
        syn::Pat::Tuple(t) => {
            for e in &t.elems {
                collect_ref_pats(e, edits, names);
            }
        }
        syn::Pat::Type(t) => collect_ref_pats(&t.pat, edits, names),
        syn::Pat::Paren(t) => collect_ref_pats(&t.pat, edits, names),
        _ => {}
    }
}

thread_local! {
    static SRC: std::cell::RefCell<String> = std::cell::RefCell::new(String::new());
}

fn src_slice(s: usize, e: usize) -> String {
    SRC.with(|t| t.borrow()[s..e].to_string())
}

fn is_place(e: &syn::Expr) -> bool {
    match e {
        syn::Expr::Path(_) => true,
        syn::Expr::Field(f) => is_place(&f.base),
        syn::Expr::Index(i) => is_place(&i.expr) && matches!(&*i.index, syn::Expr::Path(_) | syn::Expr::Lit(_)),
        syn::Expr::Paren(p) => is_place(&p.expr),
        _ => false,
    }
}

/// matches `for (i, PAT) in RECV.iter().enumerate()`; returns (i, PAT, RECV)
fn n6_match(f: &syn::ExprForLoop) -> Option<(String, &syn::Pat, &syn::Expr)> {
    let t = match &*f.pat {
        syn::Pat::Tuple(t) if t.elems.len() == 2 => t,
        _ => return None,
    };
    let idx = match &t.elems[0] {
        syn::Pat::Ident(i) if i.by_ref.is_none() && i.subpat.is_none() => i.ident.to_string(),
        _ => return None,
    };
    let en = match &*f.expr {
        syn::Expr::MethodCall(m) if m.method == "enumerate" && m.args.is_empty() => m,
        _ => return None,
    };
    let it = match &*en.receiver {
        syn::Expr::MethodCall(m) if m.method == "iter" && m.args.is_empty() => m,
        _ => return None,
    };
    if !is_place(&it.receiver) {
        return None;
    }
    Some((idx, &t.elems[1], &it.receiver))
}

fn lets(names: &[String]) -> String {
    names.iter().map(|n| format!(" let {n} = *{n}__r;")).collect::<Vec<_>>().join("")
}

struct ClosureHdr {
    types: Vec<String>,
    post: String,
    label: String,
    prelude: String,
}

fn normalise_body(
    nodes: &Nodes,
    edits: &mut Edits,
    log: &mut Vec<String>,
    closure_hdrs: &std::collections::BTreeMap<usize, ClosureHdr>,
) -> Result<(), Lost> {
    // N6 `for (i, x) in E.iter().enumerate() { B }` -> `for i in 0..E.len() { let x = &E[i]; B }`
    // (E a place expression: path / field / index chain, so evaluating it per iteration is the same)
    let mut n6_done: Vec<usize> = Vec::new();
    for (fi, f) in nodes.fors.iter().enumerate() {
        if let Some((idx, pat_b, recv)) = n6_match(f) {
            let (ps, pe) = br(f.pat.span());
            let (es, ee) = br(f.expr.span());
            let (rs, re) = br(recv.span());
            let recv_txt = src_slice(rs, re);
            edits.rep(ps, pe, idx.clone(), "N6");
            edits.rep(es, ee, format!("0..({recv_txt}).len()"), "N6");
            let at = br(f.body.brace_token.span.open()).1;
            let bind = match pat_b {
                syn::Pat::Reference(r) => {
                    let (is, ie) = br(r.pat.span());
                    format!(" let {} = ({recv_txt})[{idx}];", src_slice(is, ie))
                }
                other => {
                    let (is, ie) = br(other.span());
                    format!(" let {} = &({recv_txt})[{idx}];", src_slice(is, ie))
                }
            };
            edits.ins(at, bind, "N6");
            log.push(format!("N6 for ({idx}, _) in {recv_txt}.iter().enumerate() -> index loop"));
            n6_done.push(fi);
        }
    }
    // N1 for-loops
    for (fi, f) in nodes.fors.iter().enumerate() {
        if n6_done.contains(&fi) {
            continue;
        }
        let mut names = Vec::new();
        collect_ref_pats(&f.pat, edits, &mut names);
        if !names.is_empty() {
            let at = br(f.body.brace_token.span.open()).1;
            edits.ins(at, lets(&names), "N1");
            log.push(format!("N1 for-pattern &{}", names.join(",&")));
        }
    }
    // N1 / N5 closures
    for (n, c) in nodes.closures.iter().enumerate() {
        let mut names = Vec::new();
        let hdr = closure_hdrs.get(&n);
        for (k, p) in c.inputs.iter().enumerate() {
            let before = edits.v.len();
            collect_ref_pats(p, edits, &mut names);
            let _ = before;
            if let Some(h) = hdr {
                if let Some(t) = h.types.get(k) {
                    if !t.is_empty() {
                        if matches!(p, syn::Pat::Type(_)) {
                            return lost(format!("closure[{n}] parameter {k} is already typed"));
                        }
                        edits.ins(br(p.span()).1, format!(": {t}"), &h.label);
                    }
                }
            }
        }
        let body_is_block = matches!(&*c.body, syn::Expr::Block(b) if b.attrs.is_empty() && b.label.is_none());
        if let Some(h) = hdr {
            if !matches!(c.output, syn::ReturnType::Default) {
                return lost(format!("closure[{n}] already has a return type"));
            }
            edits.ins(br(c.or2_token.span()).1, format!(" {} ", h.post.trim()), &h.label);
            log.push(format!("N5 closure[{n}] typed header with ensures"));
        }
        let need_wrap = (!names.is_empty() || hdr.is_some()) && !body_is_block;
        if need_wrap {
            let (s, e) = br(c.body.span());
            let pre = hdr.map(|h| h.prelude.clone()).unwrap_or_default();
            edits.ins(s, format!("{{{} {}", lets(&names), if pre.is_empty() { String::new() } else { format!("\n{}\n", pre.trim_end()) }), "N1");
            edits.ins(e, " }", "N1");
        } else if let syn::Expr::Block(b) = &*c.body {
            let pre = hdr.map(|h| h.prelude.clone()).unwrap_or_default();
            if !names.is_empty() || !pre.is_empty() {
                edits.ins(br(b.block.brace_token.span.open()).1, format!("{} {}", lets(&names), if pre.is_empty() { String::new() } else { format!("\n{}\n", pre.trim_end()) }), "N1");
            }
        }
        if !names.is_empty() {
            log.push(format!("N1 closure[{n}] pattern &{}", names.join(",&")));
        }
    }
    // N2 assert_eq!/assert_ne!
    for m in &nodes.macros {
        let name = match path_last_ident(&m.path) {
            Some(n) => n,
            None => continue,
        };
        let op = match name.as_str() {
            "assert_eq" | "debug_assert_eq" => "==",
            "assert_ne" | "debug_assert_ne" => "!=",
            _ => continue,
        };
        let args: syn::punctuated::Punctuated<syn::Expr, syn::Token![,]> =
            match m.parse_body_with(syn::punctuated::Punctuated::parse_terminated) {
                Ok(a) => a,
                Err(_) => return lost(format!("cannot parse {name}! arguments")),
            };
        if args.len() < 2 {
            return lost(format!("{name}! with fewer than two arguments"));
        }
        let a = br(args[0].span());
        let b = br(args[1].span());
        let (ps, pe) = br(m.path.span());
        let newname = if name.starts_with("debug_") { "debug_assert" } else { "assert" };
        edits.rep(ps, pe, newname, "N2");
        edits.ins(a.0, "(", "N2");
        edits.rep(a.1, b.0, format!(") {op} ("), "N2");
        // drop a trailing message, if any
        let close = match &m.delimiter {
            syn::MacroDelimiter::Paren(p) => br(p.span.close()).0,
            syn::MacroDelimiter::Brace(p) => br(p.span.close()).0,
            syn::MacroDelimiter::Bracket(p) => br(p.span.close()).0,
        };
        edits.rep(b.1, close, ")", "N2");
        log.push(format!("N2 {name}! -> {newname}!(.. {op} ..)"));
    }
    Ok(())
}

// ---------------------------------------------------------------------------
// attribute filtering (N4)

const STD_DERIVES: &[&str] = &["Debug", "Clone", "Copy", "PartialEq", "Eq", "Hash", "PartialOrd", "Ord", "Default"];

fn filter_attrs(attrs: &[syn::Attribute], edits: &mut Edits, log: &mut Vec<String>, keep_docs: bool) {
    for a in attrs {
        let name = path_last_ident(a.path()).unwrap_or_default();
        let (s, e) = br(a.span());
        match name.as_str() {
            "doc" => {
                if !keep_docs {
                    edits.rep(s, e, "", "N4");
                }
            }
            "derive" => {
                let mut kept = Vec::new();
                let mut dropped = Vec::new();
                let _ = a.parse_nested_meta(|m| {
                    let full = m.path.segments.iter().map(|s| s.ident.to_string()).collect::<Vec<_>>();
                    let last = full.last().cloned().unwrap_or_default();
                    if full.len() == 1 && STD_DERIVES.contains(&last.as_str()) {
                        kept.push(last);
                    } else {
                        dropped.push(full.join("::"));
                    }
                    Ok(())
                });
                if !dropped.is_empty() {
                    if kept.is_empty() {
                        edits.rep(s, e, "", "N4");
                    } else {
                        edits.rep(s, e, format!("#[derive({})]", kept.join(", ")), "N4");
                    }
                    log.push(format!("N4 dropped derive({})", dropped.join(", ")));
                }
            }
            "allow" | "inline" | "must_use" | "repr" | "cfg" | "default" => {}
            _ => {
                edits.rep(s, e, "", "N4");
                log.push(format!("N4 dropped attribute #[{name}..]"));
            }
        }
    }
}

struct AttrWalk<'e> {
    edits: &'e mut Edits,
    log: &'e mut Vec<String>,
    keep_docs: bool,
}

impl<'a, 'e> Visit<'a> for AttrWalk<'e> {
    fn visit_attribute(&mut self, _a: &'a syn::Attribute) {}
    fn visit_field(&mut self, f: &'a syn::Field) {
        filter_attrs(&f.attrs, self.edits, self.log, self.keep_docs);
        syn::visit::visit_field(self, f);
    }
    fn visit_variant(&mut self, v: &'a syn::Variant) {
        filter_attrs(&v.attrs, self.edits, self.log, self.keep_docs);
        syn::visit::visit_variant(self, v);
    }
    fn visit_trait_item_fn(&mut self, f: &'a syn::TraitItemFn) {
        filter_attrs(&f.attrs, self.edits, self.log, self.keep_docs);
        syn::visit::visit_trait_item_fn(self, f);
    }
    fn visit_trait_item_type(&mut self, f: &'a syn::TraitItemType) {
        filter_attrs(&f.attrs, self.edits, self.log, self.keep_docs);
        syn::visit::visit_trait_item_type(self, f);
    }
    fn visit_impl_item_fn(&mut self, f: &'a syn::ImplItemFn) {
        filter_attrs(&f.attrs, self.edits, self.log, self.keep_docs);
        syn::visit::visit_impl_item_fn(self, f);
    }
}

// ---------------------------------------------------------------------------
// per-item processing

struct FnParts<'a> {
    attrs: &'a [syn::Attribute],
    sig: &'a syn::Signature,
    block: Option<&'a syn::Block>,
    whole: (usize, usize),
    /// position of the `;` for body-less trait fns
    semi: Option<usize>,
}

fn process_fn(
    parts: FnParts,
    req: &ItemReq,
    edits: &mut Edits,
    log: &mut Vec<String>,
    shape: &mut Shape,
    prefix: &str, // anchor prefix, "" for plain fns, "fn(name)." inside a trait
) -> Result<Option<(usize, usize)>, Lost> {
    let mode = req.mode.as_deref().unwrap_or("verbatim");
    filter_attrs(parts.attrs, edits, log, req.keep_docs);
    let mut nodes = Nodes::default();
    if let Some(b) = parts.block {
        nodes.visit_block(b);
        shape.loops += nodes.loops.len();
        shape.ifs += nodes.ifs.len();
        shape.closures += nodes.closures.len();
        shape.matches += nodes.matches.len();
        shape.stmts += b.stmts.len();
    }
    let my: Vec<&Splice> = req
        .splices
        .iter()
        .filter(|s| if prefix.is_empty() { !s.at.starts_with("fn(") } else { s.at.starts_with(prefix) })
        .collect();
    let mut closure_hdrs = std::collections::BTreeMap::new();
    for sp in &my {
        let at = &sp.at[prefix.len()..];
        let label = sp.label.clone().unwrap_or_else(|| format!("splice:{}", sp.at));
        let segs: Vec<&str> = at.split('.').collect();
        match segs.as_slice() {
            ["sig"] => {
                if let Some(r) = &sp.ret {
                    match &parts.sig.output {
                        syn::ReturnType::Type(_, t) => {
                            let (s, e) = br(t.span());
                            edits.ins(s, format!("({r}: "), &label);
                            edits.ins(e, ")", &label);
                        }
                        syn::ReturnType::Default => {
                            return lost(format!("lost anchor {}: function has no return type to name", sp.at))
                        }
                    }
                }
                let pos = match (parts.block, parts.semi) {
                    (Some(b), _) => br(b.brace_token.span.open()).0,
                    (None, Some(s)) => s,
                    _ => return lost(format!("lost anchor {}", sp.at)),
                };
                edits.ins(pos, format!("\n{}\n", sp.text.trim_end()), &label);
            }
            _ if mode == "trusted" => {
                return lost(format!("splice {} on a trusted (body-less) item", sp.at));
            }
            ["body", rest @ ..] => {
                let b = parts.block.ok_or_else(|| Lost(format!("lost anchor {}: no body", sp.at)))?;
                let pos = block_anchor(b, rest, &sp.at)?;
                edits.ins(pos, format!("\n{}\n", sp.text.trim_end()), &label);
            }
            ["borrowcalls"] => {
                // N8: `*X.borrow()` -> `W(&(X))`, W a wrapper named by the template whose body is `*s.borrow()`
                let w = sp.name.clone().ok_or_else(|| Lost(format!("bad anchor {}: no wrapper name", sp.at)))?;
                let mut n = 0;
                for u in &nodes.derefs {
                    if let syn::Expr::MethodCall(m) = &*u.expr {
                        if m.method == "borrow" && m.args.is_empty() && m.turbofish.is_none() {
                            let (us, ue) = br(u.span());
                            let (rs, re) = br(m.receiver.span());
                            edits.rep(us, ue, format!("{w}(&({}))", src_slice(rs, re)), "N8");
                            n += 1;
                        }
                    }
                }
                if n == 0 {
                    return lost(format!("lost anchor {}: no `*X.borrow()` in the body", sp.at));
                }
                log.push(format!("N8 {n} x `*X.borrow()` -> {w}(&X)"));
            }
            [l, rest @ ..] if l.starts_with("loop[") => {
                let n = parse_idx(l, "loop").ok_or_else(|| Lost(format!("bad anchor {}", sp.at)))?;
                let e = *nodes.loops.get(n).ok_or_else(|| Lost(format!("lost anchor {}: function has {} loops", sp.at, nodes.loops.len())))?;
                if let Some(k) = &sp.expect {
                    if k != loop_kind(e) {
                        return lost(format!("lost anchor {}: expected a `{k}` loop, found `{}`", sp.at, loop_kind(e)));
                    }
                }
                let b = loop_body(e);
                match rest {
                    ["invariant"] => {
                        edits.ins(br(b.brace_token.span.open()).0, format!("\n{}\n", sp.text.trim_end()), &label);
                    }
                    ["desugar"] => {
                        // N7: `for PAT in EXPR { B }` -> the reference desugaring
                        // `{ let mut it = (EXPR).into_iter(); loop SPEC { match it.next() { Some(PAT) => { B } None => { break; } } } }`
                        if let syn::Expr::ForLoop(f) = e {
                            if f.label.is_some() {
                                return lost(format!("lost anchor {}: labelled for loop", sp.at));
                            }
                            let nm = sp.name.clone().unwrap_or_else(|| "it".into());
                            let fs = br(f.for_token.span()).0;
                            let (ps, pe) = br(f.pat.span());
                            let (es, ee) = br(f.expr.span());
                            let open = br(b.brace_token.span.open()).0;
                            let close = br(b.brace_token.span.close()).1;
                            let (pat, ex) = (src_slice(ps, pe), src_slice(es, ee));
                            edits.rep(fs, open, format!("{{ let mut {nm} = ({ex}).into_iter(); loop\n{}\n{{ match {nm}.next() {{ Some({pat}) => ", sp.text.trim_end()), "N7");
                            edits.ins(close, " None => { break; } } } }", "N7");
                            log.push(format!("N7 for {pat} in {ex} -> let mut {nm} = into_iter; loop {{ match {nm}.next() }}"));
                        } else {
                            return lost(format!("lost anchor {}: not a for loop", sp.at));
                        }
                    }
                    ["iter"] => {
                        if let syn::Expr::ForLoop(f) = e {
                            let nm = sp.name.clone().unwrap_or_else(|| "it".into());
                            edits.ins(br(f.expr.span()).0, format!("{nm}: "), &label);
                        } else {
                            return lost(format!("lost anchor {}: not a for loop", sp.at));
                        }
                    }
                    ["body", r2 @ ..] => {
                        let pos = block_anchor(b, r2, &sp.at)?;
                        edits.ins(pos, format!("\n{}\n", sp.text.trim_end()), &label);
                    }
                    ["after"] => {
                        edits.ins(br(e.span()).1, format!("\n{}\n", sp.text.trim_end()), &label);
                    }
                    ["before"] => {
                        edits.ins(br(e.span()).0, format!("\n{}\n", sp.text.trim_end()), &label);
                    }
                    _ => return lost(format!("bad anchor {}", sp.at)),
                }
            }
            [l, rest @ ..] if l.starts_with("if[") => {
                let n = parse_idx(l, "if").ok_or_else(|| Lost(format!("bad anchor {}", sp.at)))?;
                let i = *nodes.ifs.get(n).ok_or_else(|| Lost(format!("lost anchor {}: function has {} ifs", sp.at, nodes.ifs.len())))?;
                match rest {
                    ["then", r2 @ ..] => {
                        let pos = block_anchor(&i.then_branch, r2, &sp.at)?;
                        edits.ins(pos, format!("\n{}\n", sp.text.trim_end()), &label);
                    }
                    ["else", r2 @ ..] => match &i.else_branch {
                        Some((_, eb)) => {
                            if let syn::Expr::Block(b) = &**eb {
                                let pos = block_anchor(&b.block, r2, &sp.at)?;
                                edits.ins(pos, format!("\n{}\n", sp.text.trim_end()), &label);
                            } else {
                                return lost(format!("lost anchor {}: else branch is not a block", sp.at));
                            }
                        }
                        None => return lost(format!("lost anchor {}: no else branch", sp.at)),
                    },
                    ["after"] => edits.ins(br(i.span()).1, format!("\n{}\n", sp.text.trim_end()), &label),
                    ["before"] => edits.ins(br(i.span()).0, format!("\n{}\n", sp.text.trim_end()), &label),
                    _ => return lost(format!("bad anchor {}", sp.at)),
                }
            }
            [l, rest @ ..] if l.starts_with("match[") => {
                let n = parse_idx(l, "match").ok_or_else(|| Lost(format!("bad anchor {}", sp.at)))?;
                let m = *nodes.matches.get(n).ok_or_else(|| Lost(format!("lost anchor {}: function has {} matches", sp.at, nodes.matches.len())))?;
                match rest {
                    [a, r2 @ ..] if a.starts_with("arm[") => {
                        let k = parse_idx(a, "arm").ok_or_else(|| Lost(format!("bad anchor {}", sp.at)))?;
                        let arm = m.arms.get(k).ok_or_else(|| Lost(format!("lost anchor {}: match has {} arms", sp.at, m.arms.len())))?;
                        if let syn::Expr::Block(b) = &*arm.body {
                            let pos = block_anchor(&b.block, r2, &sp.at)?;
                            edits.ins(pos, format!("\n{}\n", sp.text.trim_end()), &label);
                        } else {
                            return lost(format!("lost anchor {}: arm body is not a block", sp.at));
                        }
                    }
                    ["after"] => edits.ins(br(m.span()).1, format!("\n{}\n", sp.text.trim_end()), &label),
                    ["before"] => edits.ins(br(m.span()).0, format!("\n{}\n", sp.text.trim_end()), &label),
                    _ => return lost(format!("bad anchor {}", sp.at)),
                }
            }
            [l, "header"] if l.starts_with("closure[") => {
                let n = parse_idx(l, "closure").ok_or_else(|| Lost(format!("bad anchor {}", sp.at)))?;
                if n >= nodes.closures.len() {
                    return lost(format!("lost anchor {}: function has {} closures", sp.at, nodes.closures.len()));
                }
                let e = closure_hdrs.entry(n).or_insert(ClosureHdr { types: vec![], post: String::new(), label: label.clone(), prelude: String::new() });
                e.types = sp.types.clone().unwrap_or_default();
                e.post = sp.text.clone();
            }
            [l, "prelude"] if l.starts_with("closure[") => {
                let n = parse_idx(l, "closure").ok_or_else(|| Lost(format!("bad anchor {}", sp.at)))?;
                if n >= nodes.closures.len() {
                    return lost(format!("lost anchor {}: function has {} closures", sp.at, nodes.closures.len()));
                }
                let e = closure_hdrs.entry(n).or_insert(ClosureHdr { types: vec![], post: String::new(), label: label.clone(), prelude: String::new() });
                e.prelude = sp.text.clone();
            }
            [l, "body", r2 @ ..] if l.starts_with("closure[") => {
                let n = parse_idx(l, "closure").ok_or_else(|| Lost(format!("bad anchor {}", sp.at)))?;
                let c = *nodes.closures.get(n).ok_or_else(|| Lost(format!("lost anchor {}", sp.at)))?;
                if let syn::Expr::Block(b) = &*c.body {
                    let pos = block_anchor(&b.block, r2, &sp.at)?;
                    edits.ins(pos, format!("\n{}\n", sp.text.trim_end()), &label);
                } else {
                    return lost(format!("lost anchor {}: closure body is not a block", sp.at));
                }
            }
            _ => return lost(format!("bad anchor {}", sp.at)),
        }
    }
    if mode != "trusted" {
        normalise_body(&nodes, edits, log, &closure_hdrs)?;
    }
    // trusted: drop the body
    if mode == "trusted" {
        if let Some(b) = parts.block {
            let (s, e) = br(b.span());
            edits.rep(s, e, "{ unimplemented!() }", "trusted-body-dropped");
            edits.ins(parts.whole.0, "#[verifier::external_body]\n", "trusted");
            log.push("TRUSTED body dropped (external_body)".to_string());
        }
    }
    Ok(None)
}

fn sig_text(src: &str, sig: &syn::Signature) -> String {
    let (s, e) = br(sig.span());
    norm_ws(&src[s..e])
}

fn apply(src: &str, start: usize, end: usize, edits: &Edits) -> Result<(String, Vec<usize>, Vec<String>), Lost> {
    let mut v: Vec<Edit> = edits.v.iter().filter(|e| e.start >= start && e.end <= end).cloned().collect();
    v.sort_by_key(|e| (e.start, e.end > e.start, e.seq));
    // line starts of src
    let line_of = |pos: usize| src[..pos].bytes().filter(|b| *b == b'\n').count() + 1;
    let mut out = String::new();
    let mut linemap: Vec<usize> = Vec::new();
    let mut linelabel: Vec<String> = Vec::new();
    // we track, for the current output line, the first source line contributing to it
    let mut cur_src: usize = 0;
    let mut cur_label = String::new();
    let mut push = |out: &mut String, text: &str, src_line0: Option<usize>, label: &str, linemap: &mut Vec<usize>, linelabel: &mut Vec<String>| {
        let mut l = src_line0;
        for ch in text.chars() {
            if ch == '\n' {
                linemap.push(cur_src);
                linelabel.push(cur_label.clone());
                cur_src = 0;
                cur_label.clear();
                if let Some(x) = l.as_mut() {
                    *x += 1;
                }
            } else if !ch.is_whitespace() {
                if let Some(x) = l {
                    if cur_src == 0 {
                        cur_src = x;
                    }
                } else if cur_label.is_empty() && cur_src == 0 {
                    cur_label = label.to_string();
                }
            }
            out.push(ch);
        }
    };
    let mut pos = start;
    for e in &v {
        if e.start < pos {
            return lost(format!("overlapping edits at byte {} ({})", e.start, e.label));
        }
        push(&mut out, &src[pos..e.start], Some(line_of(pos)), "", &mut linemap, &mut linelabel);
        push(&mut out, &e.text, None, &e.label, &mut linemap, &mut linelabel);
        pos = e.end;
    }
    push(&mut out, &src[pos..end], Some(line_of(pos)), "", &mut linemap, &mut linelabel);
    linemap.push(cur_src);
    linelabel.push(cur_label.clone());
    Ok((out, linemap, linelabel))
}

fn process(src: &str, file: &syn::File, req: &ItemReq) -> Result<ItemResp, Lost> {
    let found = find_item(&file.items, &req.path)?;
    let mut edits = Edits::new();
    let mut log = Vec::new();
    let mut shape = Shape::default();
    let mode = req.mode.as_deref().unwrap_or("verbatim");
    let (start, end, signature);
    match &found {
        Found::ImplFn(_, f) => {
            let (s, e) = br(f.span());
            start = s;
            end = e;
            signature = sig_text(src, &f.sig);
            process_fn(
                FnParts { attrs: &f.attrs, sig: &f.sig, block: Some(&f.block), whole: (s, e), semi: None },
                req,
                &mut edits,
                &mut log,
                &mut shape,
                "",
            )?;
        }
        Found::ImplConst(c) => {
            let (s, e) = br(c.span());
            start = s;
            end = e;
            signature = format!("const {}", c.ident);
            filter_attrs(&c.attrs, &mut edits, &mut log, req.keep_docs);
        }
        Found::TraitFn(_, f) => {
            let (s, e) = br(f.span());
            start = s;
            end = e;
            signature = sig_text(src, &f.sig);
            let semi = f.semi_token.map(|t| br(t.span()).0);
            process_fn(
                FnParts { attrs: &f.attrs, sig: &f.sig, block: f.default.as_ref(), whole: (s, e), semi },
                req,
                &mut edits,
                &mut log,
                &mut shape,
                "",
            )?;
        }
        Found::Item(it) => {
            let (s, e) = br(it.span());
            start = s;
            end = e;
            match it {
                syn::Item::Fn(f) => {
                    signature = sig_text(src, &f.sig);
                    process_fn(
                        FnParts { attrs: &f.attrs, sig: &f.sig, block: Some(&f.block), whole: (s, e), semi: None },
                        req,
                        &mut edits,
                        &mut log,
                        &mut shape,
                        "",
                    )?;
                }
                syn::Item::Static(st) => {
                    signature = norm_ws(&src[br(st.static_token.span()).0..br(st.eq_token.span()).0]);
                    filter_attrs(&st.attrs, &mut edits, &mut log, req.keep_docs);
                    let ens = req.splices.iter().find(|s| s.at == "static.ensures");
                    for sp in &req.splices {
                        if sp.at != "static.ensures" {
                            return lost(format!("bad anchor {} on a static", sp.at));
                        }
                    }
                    let text = ens.map(|s| s.text.trim().to_string()).unwrap_or_else(|| "true".into());
                    edits.ins(br(st.static_token.span()).0, "exec ", "N3");
                    let (es, ee) = br(st.eq_token.span());
                    edits.rep(es, ee, format!("\n    ensures {text}\n{{"), "N3");
                    let (ss, se) = br(st.semi_token.span());
                    edits.rep(ss, se, "}", "N3");
                    log.push("N3 static -> exec static .. ensures .. { .. }".to_string());
                }
                syn::Item::Trait(t) => {
                    signature = format!("trait {}", t.ident);
                    filter_attrs(&t.attrs, &mut edits, &mut log, req.keep_docs);
                    for ti in &t.items {
                        match ti {
                            syn::TraitItem::Fn(f) => {
                                let prefix = format!("fn({}).", f.sig.ident);
                                let semi = f.semi_token.map(|t| br(t.span()).0);
                                process_fn(
                                    FnParts { attrs: &f.attrs, sig: &f.sig, block: f.default.as_ref(), whole: br(f.span()), semi },
                                    req,
                                    &mut edits,
                                    &mut log,
                                    &mut shape,
                                    &prefix,
                                )?;
                            }
                            syn::TraitItem::Type(ty) => filter_attrs(&ty.attrs, &mut edits, &mut log, req.keep_docs),
                            syn::TraitItem::Const(c) => filter_attrs(&c.attrs, &mut edits, &mut log, req.keep_docs),
                            _ => {}
                        }
                    }
                    for sp in &req.splices {
                        if sp.at == "trait.end" {
                            edits.ins(br(t.brace_token.span.close()).0, format!("\n{}\n", sp.text.trim_end()), "splice:trait.end");
                        } else if sp.at == "trait.start" {
                            edits.ins(br(t.brace_token.span.open()).1, format!("\n{}\n", sp.text.trim_end()), "splice:trait.start");
                        } else if sp.at.starts_with("fn(") {
                            let name = sp.at[3..].split(')').next().unwrap_or("");
                            let ok = t.items.iter().any(|ti| matches!(ti, syn::TraitItem::Fn(f) if f.sig.ident == name));
                            if !ok {
                                return lost(format!("lost anchor {}: trait has no such method", sp.at));
                            }
                        } else {
                            return lost(format!("bad anchor {} on a trait", sp.at));
                        }
                    }
                }
                syn::Item::Impl(im) => {
                    // whole impl block, verbatim (methods normalised, no splices except per-fn "fn(name).…")
                    signature = norm_ws(&src[s..br(im.brace_token.span.open()).0]);
                    filter_attrs(&im.attrs, &mut edits, &mut log, req.keep_docs);
                    for ii in &im.items {
                        if let syn::ImplItem::Fn(f) = ii {
                            let prefix = format!("fn({}).", f.sig.ident);
                            process_fn(
                                FnParts { attrs: &f.attrs, sig: &f.sig, block: Some(&f.block), whole: br(f.span()), semi: None },
                                req,
                                &mut edits,
                                &mut log,
                                &mut shape,
                                &prefix,
                            )?;
                        }
                    }
                    for sp in &req.splices {
                        if sp.at.starts_with("fn(") {
                            let name = sp.at[3..].split(')').next().unwrap_or("");
                            let ok = im.items.iter().any(|ii| matches!(ii, syn::ImplItem::Fn(f) if f.sig.ident == name));
                            if !ok {
                                return lost(format!("lost anchor {}: impl has no such method", sp.at));
                            }
                        } else if sp.at == "impl.end" {
                            edits.ins(br(im.brace_token.span.close()).0, format!("\n{}\n", sp.text.trim_end()), "splice:impl.end");
                        } else {
                            return lost(format!("bad anchor {} on an impl", sp.at));
                        }
                    }
                }
                syn::Item::Struct(st) => {
                    signature = format!("struct {}", st.ident);
                    filter_attrs(&st.attrs, &mut edits, &mut log, req.keep_docs);
                    let mut w = AttrWalk { edits: &mut edits, log: &mut log, keep_docs: req.keep_docs };
                    w.visit_item_struct(st);
                    if !req.splices.is_empty() {
                        return lost("splices on a struct are not supported");
                    }
                }
                syn::Item::Enum(en) => {
                    signature = format!("enum {}", en.ident);
                    filter_attrs(&en.attrs, &mut edits, &mut log, req.keep_docs);
                    let mut w = AttrWalk { edits: &mut edits, log: &mut log, keep_docs: req.keep_docs };
                    w.visit_item_enum(en);
                    if !req.splices.is_empty() {
                        return lost("splices on an enum are not supported");
                    }
                }
                syn::Item::Const(c) => {
                    signature = format!("const {}", c.ident);
                    filter_attrs(&c.attrs, &mut edits, &mut log, req.keep_docs);
                }
                syn::Item::Type(c) => {
                    signature = format!("type {}", c.ident);
                    filter_attrs(&c.attrs, &mut edits, &mut log, req.keep_docs);
                }
                _ => return lost(format!("unsupported item kind for {}", req.path)),
            }
        }
    }
    let mut frame = Frame::default();
    let mut body_tokens = String::new();
    {
        use quote::ToTokens;
        match &found {
            Found::ImplFn(_, f) => {
                frame.visit_block(&f.block);
                body_tokens = f.block.to_token_stream().to_string();
            }
            Found::TraitFn(_, f) => {
                if let Some(b) = &f.default {
                    frame.visit_block(b);
                    body_tokens = b.to_token_stream().to_string();
                }
            }
            Found::Item(syn::Item::Fn(f)) => {
                frame.visit_block(&f.block);
                body_tokens = f.block.to_token_stream().to_string();
            }
            _ => {}
        }
    }
    let body_tokens_fnv = fnv(&body_tokens);
    if let Some(exp) = &req.expect_sig {
        if norm_ws(exp) != signature {
            return lost(format!(
                "signature drift for {}: contract written for `{}`, source has `{}`",
                req.path,
                norm_ws(exp),
                signature
            ));
        }
    }
    if mode == "sig" {
        return Ok(ItemResp {
            path: req.path.clone(),
            text: signature.clone(),
            src_line_start: 0,
            src_line_end: 0,
            linemap: vec![],
            linelabel: vec![],
            normalisations: log,
            signature,
            shape,
            src_sha_fnv: fnv(&src[start..end]),
            self_writes: frame.writes.into_iter().collect(),
            self_reads: frame.reads.into_iter().collect(),
            self_calls: frame.calls.into_iter().collect(),
            body_tokens_fnv,
        });
    }
    let (text, linemap, linelabel) = apply(src, start, end, &edits)?;
    let line_of = |pos: usize| src[..pos].bytes().filter(|b| *b == b'\n').count() + 1;
    Ok(ItemResp {
        path: req.path.clone(),
        text,
        src_line_start: line_of(start),
        src_line_end: line_of(end),
        linemap,
        linelabel,
        normalisations: log,
        signature,
        shape,
        src_sha_fnv: fnv(&src[start..end]),
        self_writes: frame.writes.into_iter().collect(),
        self_reads: frame.reads.into_iter().collect(),
        self_calls: frame.calls.into_iter().collect(),
        body_tokens_fnv,
    })
}

fn main() {
    let args: Vec<String> = std::env::args().collect();
    if args.len() != 2 {
        eprintln!("usage: extract <request.json>");
        std::process::exit(3);
    }
    let reqtext = std::fs::read_to_string(&args[1]).expect("read request");
    let req: Request = serde_json::from_str(&reqtext).expect("parse request");
    let src = match std::fs::read_to_string(&req.file) {
        Ok(s) => s,
        Err(e) => {
            eprintln!("LOST: cannot read {}: {e}", req.file);
            std::process::exit(2);
        }
    };
    SRC.with(|t| *t.borrow_mut() = src.clone());
    let file = match syn::parse_file(&src) {
        Ok(f) => f,
        Err(e) => {
            eprintln!("LOST: cannot parse {}: {e}", req.file);
            std::process::exit(2);
        }
    };
    let mut items = Vec::new();
    for it in &req.items {
        match process(&src, &file, it) {
            Ok(r) => items.push(r),
            Err(Lost(m)) => {
                eprintln!("LOST: {}: {m}", req.file);
                std::process::exit(2);
            }
        }
    }
    println!("{}", serde_json::to_string(&Response { file: req.file.clone(), items }).unwrap());
}
