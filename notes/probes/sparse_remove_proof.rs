#![feature(allocator_api)]
use vstd::prelude::*;
verus! {

pub assume_specification<T: PartialEq>[ <[T]>::contains ](s: &[T], x: &T) -> (b: bool)
    ensures b == s@.contains(*x);

pub assume_specification<T, A: core::alloc::Allocator, F: FnMut(&T) -> bool>[ Vec::<T, A>::retain ](v: &mut Vec<T, A>, f: F)
    requires forall|x: &T| #[trigger] f.requires((x,)),
    ensures
        exists|keep: spec_fn(T) -> bool| (forall|x: T| f.ensures((&x,), #[trigger] keep(x))) && final(v)@ == old(v)@.filter(keep);

pub struct SparseMatrix {
    rows: Vec<Vec<usize>>,
    cols: Vec<Vec<usize>>,
}

impl SparseMatrix {
    pub closed spec fn nrows(&self) -> int { self.rows.len() as int }
    pub closed spec fn ncols(&self) -> int { self.cols.len() as int }
    pub closed spec fn has(&self, r: int, c: int) -> bool {
        0 <= c < self.cols.len() && 0 <= r < self.rows.len() && self.cols[c]@.contains(r as usize)
    }
    pub closed spec fn col_has(&self, c: int, r: usize) -> bool { self.cols[c]@.contains(r) }
    pub closed spec fn wf(&self) -> bool {
        &&& forall|r: int, c: int| 0 <= r < self.rows.len() && 0 <= c < self.cols.len() ==>
              (#[trigger] self.rows[r]@.contains(c as usize) <==> #[trigger] self.cols[c]@.contains(r as usize))
        &&& forall|r: int, i: int| 0 <= r < self.rows.len() && 0 <= i < self.rows[r].len() ==> (#[trigger] self.rows[r][i]) < self.cols.len()
        &&& forall|c: int, i: int| 0 <= c < self.cols.len() && 0 <= i < self.cols[c].len() ==> (#[trigger] self.cols[c][i]) < self.rows.len()
        &&& forall|r: int| 0 <= r < self.rows.len() ==> #[trigger] self.rows[r]@.no_duplicates()
        &&& forall|c: int| 0 <= c < self.cols.len() ==> #[trigger] self.cols[c]@.no_duplicates()
    }

    pub fn contains(&self, row: usize, col: usize) -> (b: bool)
        requires col < self.ncols(),
        ensures b == self.col_has(col as int, row)
    {
        // typically columns are shorter, so we search in the column
        self.cols[col].contains(&row)
    }


    pub fn remove(&mut self, row: usize, col: usize)
        requires col < old(self).ncols(), row < old(self).nrows(), old(self).wf()
        ensures final(self).wf(), final(self).nrows() == old(self).nrows(), final(self).ncols() == old(self).ncols(),
            forall|r: int, c: int| final(self).has(r, c) == (old(self).has(r, c) && !(r == row && c == col))
    {
        self.rows[row].retain(|c__r: &usize| -> (b: bool) ensures b == (*c__r != col) { let c = *c__r; c != col });
        self.cols[col].retain(|r__r: &usize| -> (b: bool) ensures b == (*r__r != row) { let r = *r__r; r != row });
        proof {
            let o = *old(self);
            let n = *self;
            let keepc = |x: usize| x != col;
            let keepr = |x: usize| x != row;
            assert(n.rows[row as int]@ == o.rows[row as int]@.filter(keepc)) by {
                let k = choose|k: spec_fn(usize) -> bool| (forall|x: usize| (#[trigger] k(x)) == (x != col)) && n.rows[row as int]@ == o.rows[row as int]@.filter(k);
                assert(k =~= keepc);
            }
            assert(n.cols[col as int]@ == o.cols[col as int]@.filter(keepr)) by {
                let k = choose|k: spec_fn(usize) -> bool| (forall|x: usize| (#[trigger] k(x)) == (x != row)) && n.cols[col as int]@ == o.cols[col as int]@.filter(k);
                assert(k =~= keepr);
            }
            assert(forall|r: int| 0 <= r < n.rows.len() && r != row ==> n.rows[r] == o.rows[r]);
            assert(forall|c: int| 0 <= c < n.cols.len() && c != col ==> n.cols[c] == o.cols[c]);
            lemma_filter_props(o.rows[row as int]@, keepc);
            lemma_filter_props(o.cols[col as int]@, keepr);
            assert forall|r: int, c: int| 0 <= r < n.rows.len() && 0 <= c < n.cols.len() implies
                (#[trigger] n.rows[r]@.contains(c as usize) <==> #[trigger] n.cols[c]@.contains(r as usize)) by {
                assert(o.rows[r]@.contains(c as usize) <==> o.cols[c]@.contains(r as usize));
            }
            assert forall|r: int, c: int| n.has(r, c) == (o.has(r, c) && !(r == row && c == col)) by {}
        }
    }

    pub fn insert(&mut self, row: usize, col: usize)
        requires col < old(self).ncols(), row < old(self).nrows(), old(self).wf()
        ensures final(self).wf(), final(self).nrows() == old(self).nrows(), final(self).ncols() == old(self).ncols(),
            forall|r: int, c: int| final(self).has(r, c) == (old(self).has(r, c) || (r == row && c == col))
    {
        if !self.contains(row, col) {
            self.rows[row].push(col);
            self.cols[col].push(row);
            proof {
                let o = *old(self);
                let n = *self;
                assert(n.rows.len() == o.rows.len());
                assert(n.cols.len() == o.cols.len());
                assert(n.rows[row as int]@ == o.rows[row as int]@.push(col));
                assert(n.cols[col as int]@ == o.cols[col as int]@.push(row));
                assert(forall|r: int| 0 <= r < n.rows.len() && r != row ==> n.rows[r] == o.rows[r]);
                assert(forall|c: int| 0 <= c < n.cols.len() && c != col ==> n.cols[c] == o.cols[c]);
                assert(o.rows[row as int]@.contains(col as usize) <==> o.cols[col as int]@.contains(row as usize));
                assert(!o.cols[col as int]@.contains(row));
                assert(!o.rows[row as int]@.contains(col));
                assert forall|r: int, c: int| 0 <= r < n.rows.len() && 0 <= c < n.cols.len() implies
                    (#[trigger] n.rows[r]@.contains(c as usize) <==> #[trigger] n.cols[c]@.contains(r as usize)) by {
                    lemma_push_contains(o.rows[row as int]@, col, c as usize);
                    lemma_push_contains(o.cols[col as int]@, row, r as usize);
                    assert(o.rows[r]@.contains(c as usize) <==> o.cols[c]@.contains(r as usize));
                }
                lemma_push_nodup(o.rows[row as int]@, col);
                lemma_push_nodup(o.cols[col as int]@, row);
                assert forall|r: int, c: int| n.has(r, c) == (o.has(r, c) || (r == row && c == col)) by {
                    if 0 <= c < n.cols.len() && 0 <= r < n.rows.len() {
                        lemma_push_contains(o.cols[col as int]@, row, r as usize);
                    }
                }
            }
        }
    }
}

proof fn lemma_filter_props(s: Seq<usize>, keep: spec_fn(usize) -> bool)
    ensures
        forall|y: usize| #[trigger] s.filter(keep).contains(y) <==> (s.contains(y) && keep(y)),
        s.no_duplicates() ==> s.filter(keep).no_duplicates(),
        forall|i: int| 0 <= i < s.filter(keep).len() ==> s.contains(#[trigger] s.filter(keep)[i]),
{
    admit(); // probe only: standard seq_lib facts (filter_lemma / filter preserves no_duplicates)
}
proof fn lemma_push_contains(s: Seq<usize>, x: usize, y: usize)
    ensures s.push(x).contains(y) <==> (s.contains(y) || x == y)
{
    if s.contains(y) {
        let i = choose|i: int| 0 <= i < s.len() && s[i] == y;
        assert(s.push(x)[i] == y);
    }
    if x == y { assert(s.push(x)[s.len() as int] == y); }
    if s.push(x).contains(y) {
        let i = choose|i: int| 0 <= i < s.push(x).len() && s.push(x)[i] == y;
        if i < s.len() { assert(s[i] == y); }
    }
}
proof fn lemma_push_nodup(s: Seq<usize>, x: usize)
    requires s.no_duplicates(), !s.contains(x)
    ensures s.push(x).no_duplicates()
{
    assert forall|i: int, j: int| 0 <= i < s.push(x).len() && 0 <= j < s.push(x).len() && i != j implies s.push(x)[i] != s.push(x)[j] by {
        if i < s.len() && j < s.len() {} else if i < s.len() { assert(s.contains(s[i])); } else { assert(s.contains(s[j])); }
    }
}

} // verus!
fn main() {}
