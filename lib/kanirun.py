"""Run Kani harnesses of /verif/kani against the current /repo tree."""
import json, os, re, resource, subprocess, time, shutil, threading
from concurrent.futures import ThreadPoolExecutor
from unitgen import VERIF, REPO, WORK, Undecided
import witness

CRATE = os.path.join(WORK, "kani-crate")
TARGET = os.path.join(WORK, "kani-target")
GEN = os.path.join(WORK, "kani-gen")
PLAYBACK_MODS = ["c01", "c03", "c04", "c04f", "c05", "c14", "c15", "c17", "c18"]
PLAYBACK_EMPTY = "// concrete playback tests are written here by the runner\n"
PLAYBACK_LOCK = threading.Lock()
KANI_FLAGS = ["-Z", "stubbing", "-Z", "function-contracts", "-Z", "unstable-options"]


def prepare(log):
    os.makedirs(CRATE, exist_ok=True)
    os.makedirs(GEN, exist_ok=True)
    toml = open(os.path.join(VERIF, "kani", "Cargo.toml.in")).read().replace("@REPO@", REPO).replace(
        "@SRC@", os.path.join(VERIF, "kani", "src"))
    p = os.path.join(CRATE, "Cargo.toml")
    if not os.path.exists(p) or open(p).read() != toml:
        open(p, "w").write(toml)
    lock = os.path.join(REPO, "Cargo.lock")
    lp = os.path.join(CRATE, "Cargo.lock")
    if os.path.exists(lock) and not os.path.exists(lp):
        shutil.copy(lock, lp)
    os.makedirs(os.path.join(CRATE, ".cargo"), exist_ok=True)
    open(os.path.join(CRATE, ".cargo", "config.toml"), "w").write("[net]\noffline = true\n")
    # libm table: exact values from the platform libm, computed natively on this run
    exe = witness.build(log)
    if not exe:
        raise Undecided("replay crate (libm table generator) does not build")
    rows = [l.split() for l in subprocess.run([exe, "libm-table"], stdout=subprocess.PIPE, text=True).stdout.strip().split("\n")]
    if len(rows) != 128 or any(len(r) != 2 for r in rows):
        raise Undecided("libm table generator produced unexpected output")
    txt = "pub const LN1P_EXP_BITS: [u64; 128] = [\n" + "".join(f"    {r[0]},\n" for r in rows) + "];\n"
    txt += "/// round(8 ln(1 + e^(-t/8))), 0 where it rounds to 0 (the documented correction table)\n"
    txt += "pub const TABLE_SPEC: [i8; 128] = [" + ", ".join(r[1] for r in rows) + "];\n"
    tl = next((i for i, r in enumerate(rows) if int(r[1]) == 0), 128)
    txt += f"/// number of leading non-zero entries (what new() keeps)\npub const TABLE_LEN: usize = {tl};\n"
    tp = os.path.join(GEN, "libm_table.rs")
    if not os.path.exists(tp) or open(tp).read() != txt:
        open(tp, "w").write(txt)
    for m in PLAYBACK_MODS:
        pb = os.path.join(GEN, f"playback_{m}.rs")
        if not os.path.exists(pb):
            open(pb, "w").write(PLAYBACK_EMPTY)
    return CRATE


def env():
    return dict(os.environ, CARGO_NET_OFFLINE="true", CARGO_TARGET_DIR=TARGET, VERIF_KANI_GEN=GEN)


def _limit(mem_gb):
    def f():
        lim = int(mem_gb * (1 << 30))
        try:
            resource.setrlimit(resource.RLIMIT_AS, (lim, lim))
        except Exception:
            pass
        os.setsid()
    return f


def codegen(log):
    """build the harness crate (and the current /repo tree) once; a harness filter that matches
    nothing makes `cargo kani` stop right after the build"""
    t0 = time.time()
    r = subprocess.run(["cargo", "kani"] + KANI_FLAGS + ["--harness", "zzz_build_only", "--exact"], cwd=CRATE, env=env(),
                       stdout=subprocess.PIPE, stderr=subprocess.STDOUT, text=True)
    out = "\n".join(l for l in r.stdout.split("\n") if "linker stdout" not in l)
    if "Failed to match the following harness" not in out:
        errs = [l for l in out.split("\n") if l.startswith("error")]
        raise Undecided("kani build of the harness crate failed: " + "; ".join(errs[:5]) + "\n" + out[-1500:])
    log(f"[kani] build of harness crate against {REPO}: {time.time() - t0:.0f}s")


def parse(out):
    res = {}
    m = re.search(r"VERIFICATION:- (SUCCESSFUL|FAILED)", out)
    res["verdict"] = m.group(1) if m else None
    m = re.search(r"\*\* (\d+) of (\d+) failed", out)
    if m:
        res["checks"] = int(m.group(2))
        res["checks_failed"] = int(m.group(1))
    m = re.search(r"\*\* (\d+) of (\d+) cover properties satisfied", out)
    if m:
        res["covers"] = int(m.group(2))
        res["covers_satisfied"] = int(m.group(1))
    m = re.search(r"SUMMARY:\s*\n\s*\*\* (\d+) of (\d+) failed", out)
    fails = re.findall(r"Failed Checks: (.*)\n(?:\s*File: \"([^\"]*)\", line (\d+), in (\S+))?", out)
    res["failed_checks"] = [{"desc": f[0], "file": f[1], "line": f[2], "fn": f[3]} for f in fails]
    m = re.search(r"Verification Time: ([\d.]+)s", out)
    if m:
        res["cbmc_s"] = float(m.group(1))
    res["stubs"] = re.findall(r"- Stub: (.*)", out)
    return res


def run_one(h, log):
    name = h["harness"]
    cmd = ["cargo", "kani"] + KANI_FLAGS + ["--harness", name, "--exact", "--output-format", "terse"] + h.get("extra", [])
    t0 = time.time()
    timeout = h.get("timeout", 900)
    try:
        p = subprocess.Popen(cmd, cwd=CRATE, env=env(), stdout=subprocess.PIPE, stderr=subprocess.STDOUT, text=True,
                             preexec_fn=_limit(h.get("cap_gb", 24)))
        try:
            out, _ = p.communicate(timeout=timeout)
        except subprocess.TimeoutExpired:
            try:
                os.killpg(p.pid, 9)
            except Exception:
                p.kill()
            p.communicate()
            return dict(h, status="undecided", reason=f"timeout after {timeout}s", wall_s=time.time() - t0, cmd=" ".join(cmd))
    except Exception as e:
        return dict(h, status="undecided", reason=f"could not run kani: {e}", wall_s=time.time() - t0, cmd=" ".join(cmd))
    out = "\n".join(l for l in out.split("\n") if "linker stdout" not in l)
    res = parse(out)
    r = dict(h, wall_s=time.time() - t0, cmd=" ".join(cmd), checks=res.get("checks"), covers=res.get("covers"),
             covers_satisfied=res.get("covers_satisfied"), stubs={f"stub {s}": 1 for s in res.get("stubs", [])},
             tail=out[-2500:])
    if res["verdict"] == "SUCCESSFUL":
        if res.get("covers") and res.get("covers_satisfied", 0) < res["covers"]:
            r.update(status="undecided", reason=f"vacuity guard: only {res.get('covers_satisfied')} of {res['covers']} cover properties satisfied")
        elif not res.get("checks"):
            r.update(status="undecided", reason="vacuity guard: no checks generated")
        else:
            r.update(status="verified")
    elif res["verdict"] == "FAILED":
        fc = res["failed_checks"]
        unsupported = [f for f in fc if "not currently supported" in f["desc"] or "unwinding assertion" in f["desc"]
                       or "unsupported" in f["desc"].lower()]
        if unsupported and len(unsupported) == len(fc):
            r.update(status="undecided", reason="kani limit: " + "; ".join(f["desc"][:120] for f in unsupported[:3]))
        elif not fc:
            r.update(status="undecided", reason="kani reported FAILED without a failed check: " + out[-400:])
        else:
            real = [f for f in fc if f not in unsupported]
            r.update(status="failed", failed_check=re.sub(r"[^A-Za-z0-9_.<>=!&| -]+", " ", real[0]["desc"])[:90].strip(),
                     failed_desc="; ".join(f"{f['desc'][:200]} ({f['file']}:{f['line']})" for f in real[:4]))
    else:
        oom = "memory" in out.lower() or "std::bad_alloc" in out or p.returncode in (-9, 137)
        r.update(status="undecided", reason=("out of memory under the cap" if oom else "kani did not finish") + ": " + out[-300:])
    log(f"[kani] {name}: {r['status']} checks={r.get('checks')} covers={r.get('covers_satisfied')}/{r.get('covers')} "
        f"{r['wall_s']:.0f}s" + (f" ({r.get('reason', '')[:160]})" if r["status"] == "undecided" else ""))
    return r


def playback(h, log):
    """ask Kani for its concrete counterexample and replay it natively against the real crate"""
    name = h["harness"]
    cmd = ["cargo", "kani"] + KANI_FLAGS + ["-Z", "concrete-playback", "--concrete-playback=print", "--harness", name,
                                             "--exact", "--output-format", "terse"]
    try:
        r = subprocess.run(cmd, cwd=CRATE, env=env(), stdout=subprocess.PIPE, stderr=subprocess.STDOUT, text=True,
                           timeout=h.get("timeout", 900) * 2, preexec_fn=_limit(h.get("cap_gb", 24) * 2))
    except subprocess.TimeoutExpired:
        return {"found": False, "note": "concrete playback timed out"}
    out = r.stdout
    blocks = re.findall(r"```\s*\n(.*?)```", out, re.S)
    blocks = [b for b in blocks if "#[test]" in b]
    # prefer the test of a failed assertion over the tests Kani prints for satisfied covers
    pick = [b for b in blocks if "Check for `cover`" not in b] or []
    if not pick:
        return {"found": False, "note": "kani printed no concrete playback test for a failed check"}
    test = pick[0]
    vals = re.findall(r"//\s*(.+)\n\s*vec!\[([^\]]*)\]", test)
    inputs = [{"value": v.strip(), "bytes": b.strip()} for v, b in vals]
    wit = {"found": True, "engine": "kani --concrete-playback", "harness": name, "inputs": inputs[:40],
           "playback_test": test[:6000]}
    # native replay: the generated test calls the harness natively (no stubs: the real libm is used);
    # it is written into the include file of the harness's own module for the duration of the replay
    mod = name.split("::")[0]
    tn = re.search(r"fn (kani_concrete_playback_\w+)", test)
    if tn and mod in PLAYBACK_MODS:
        pb = os.path.join(GEN, f"playback_{mod}.rs")
        with PLAYBACK_LOCK:
            open(pb, "w").write(test + "\n")
            cmd2 = ["cargo", "kani", "playback", "-Z", "concrete-playback", "--", tn.group(1)]
            try:
                r2 = subprocess.run(cmd2, cwd=CRATE, env=env(), stdout=subprocess.PIPE, stderr=subprocess.STDOUT, text=True, timeout=1200)
                o2 = "\n".join(l for l in r2.stdout.split("\n") if "linker stdout" not in l)
                wit["native_replay"] = {"cmd": " ".join(cmd2), "exit": r2.returncode, "tail": o2[-1500:],
                                        "reproduced_natively": ("panicked" in o2 or "test result: FAILED" in o2) and "could not compile" not in o2}
            except subprocess.TimeoutExpired:
                wit["native_replay"] = {"note": "native replay timed out"}
            open(pb, "w").write(PLAYBACK_EMPTY)
    return wit


def run_harnesses(pid, specs, tier, log):
    prepare(log)
    codegen(log)
    budget = float(os.environ.get("VERIF_KANI_MEM_GB", "44"))
    lock = threading.Condition()
    used = [0.0]
    npb = [0]

    def job(h):
        need = min(h.get("mem_gb", 4), budget)
        with lock:
            while used[0] + need > budget:
                lock.wait()
            used[0] += need
        try:
            r = run_one(h, log)
        finally:
            with lock:
                used[0] -= need
                lock.notify_all()
        if r["status"] == "failed":
            with lock:
                npb[0] += 1
                do_pb = npb[0] <= int(os.environ.get("VERIF_KANI_PLAYBACKS", "2"))
            if not do_pb:
                r["witness"] = {"found": False, "note": "concrete playback is run for the first failing harnesses of a run only; see the other replay files of this run"}
                return r
            try:
                r["witness"] = playback(h, log)
            except Exception as e:
                r["witness"] = {"found": False, "note": f"playback failed: {e}"}
        return r

    with ThreadPoolExecutor(max_workers=int(os.environ.get("VERIF_KANI_JOBS", "16"))) as ex:
        return list(ex.map(job, specs))
