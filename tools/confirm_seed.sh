#!/bin/sh
# usage: tools/confirm_seed.sh <worktree> <out-dir> <i>
# Confirms a seeded change in a scratch worktree: (1) the demo passes on the clean tree,
# (2) with the change the crate builds and the existing suite passes, (3) the demo fails.
W=$1; O=$2; I=$3
export CARGO_NET_OFFLINE=true CARGO_TARGET_DIR=$W/target
cd $W || exit 9
git checkout -q -- . ; git clean -qfd -e target
mkdir -p tests
cp $O/demo$I.rs tests/demo.rs
cargo test -j 6 --offline --test demo > $O/confirm$I.clean.log 2>&1; clean_rc=$?
rm -f tests/demo.rs
git apply --whitespace=nowarn $O/mutant$I.diff || { echo "{\"i\":$I,\"apply\":false}"; exit 1; }
cargo test -j 6 --workspace --no-fail-fast --offline > $O/confirm$I.suite.log 2>&1; suite_rc=$?
npass=$(grep -E "^test result: ok. 42 passed" $O/confirm$I.suite.log | wc -l)
cp $O/demo$I.rs tests/demo.rs
cargo test -j 6 --offline --test demo > $O/confirm$I.mutant.log 2>&1; mut_rc=$?
git checkout -q -- . ; git clean -qfd -e target
echo "{\"i\":$I,\"demo_on_clean_rc\":$clean_rc,\"suite_with_change_rc\":$suite_rc,\"suite_42_passed\":$npass,\"demo_with_change_rc\":$mut_rc}"
