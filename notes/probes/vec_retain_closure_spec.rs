#![feature(allocator_api)]
use vstd::prelude::*;
verus! {

pub assume_specification<T, A: core::alloc::Allocator, F: FnMut(&T) -> bool>[ Vec::<T, A>::retain ](v: &mut Vec<T, A>, f: F)
    requires forall|x: &T| #[trigger] f.requires((x,)),
    ensures
        exists|keep: spec_fn(T) -> bool| (forall|x: T| f.ensures((&x,), #[trigger] keep(x))) && final(v)@ == old(v)@.filter(keep);

fn rm(v: &mut Vec<usize>, col: usize)
    ensures final(v)@ == old(v)@.filter(|x: usize| x != col)
{
    v.retain(|c__r: &usize| -> (b: bool) ensures b == (*c__r != col) { let c = *c__r; c != col });
    proof {
        let keep = choose|keep: spec_fn(usize) -> bool| (forall|x: usize| (#[trigger] keep(x)) == (x != col)) && v@ == old(v)@.filter(keep);
        assert(keep =~= (|x: usize| x != col));
    }
}

fn hd(x: f64) -> (b: bool) { x <= 0.0 }

fn use_closure(xs: &[f64]) -> (r: bool)
    requires xs.len() > 0
{
    let f = |x: f64| -> (b: bool) { x <= 0.0 };
    f(xs[0])
}

} // verus!
fn main() {}
