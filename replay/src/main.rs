//! Native replay / directed witness search against the real crate.
//! This program never decides a property: the verifiers do.  It evaluates the
//! executable form of a failed contract on small exhaustive domains so that a
//! VIOLATION report can carry a concrete failing input when one exists.
//!
//! usage: verif-replay <search> [args]      prints one JSON object per line:
//!   {"found": true, "input": "...", "observed": "...", "expected": "..."}

use ldpc_toolbox::sparse::SparseMatrix;

mod c06;
mod c17;
mod dec;

fn main() {
    let args: Vec<String> = std::env::args().collect();
    let what = args.get(1).map(|s| s.as_str()).unwrap_or("");
    let found = match what {
        "c06" => c06::search(),
        "libm-table" => {
            // exact libm values used to build the 8-bit correction table inside Kani
            // (Kani cannot call the foreign log1p/exp): ln(1 + exp(-t/8)), t = 0..=127
            for t in 0..=127u32 {
                let v = (-(t as f64 / 8.0)).exp().ln_1p();
                let r = (8.0 * v).round() as i8;
                println!("{:#018x} {}", v.to_bits(), if r > 0 { r } else { 0 });
            }
            return;
        }
        "c17" => c17::search(),
        "c01" => dec::search_c01(),
        "c10" => dec::search_c10(),
        _ => {
            eprintln!("unknown search {what}");
            std::process::exit(3);
        }
    };
    if !found {
        println!("{{\"found\": false}}");
    }
}

pub fn report(input: &str, observed: &str, expected: &str) {
    println!(
        "{{\"found\": true, \"input\": {:?}, \"observed\": {:?}, \"expected\": {:?}}}",
        input, observed, expected
    );
}

#[allow(dead_code)]
pub fn dense(h: &SparseMatrix) -> Vec<Vec<bool>> {
    (0..h.num_rows()).map(|r| (0..h.num_cols()).map(|c| h.contains(r, c)).collect()).collect()
}
