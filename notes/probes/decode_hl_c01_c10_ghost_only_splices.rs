use vstd::prelude::*;
verus! {

use vstd::std_specs::cmp::*;
// ---------------- ghost spec layer (checker side) ----------------
pub uninterp spec fn parity_ok(h: SparseMatrix, bits: Seq<bool>) -> bool;
pub open spec fn in_hd(x: f64, b: bool) -> bool { le_ensures::<f64>(x, 0.0f64, b) }
pub uninterp spec fn f64_hd(x: f64) -> bool;
#[verifier::external_body]
pub proof fn axiom_f64_le_functional(x: f64, b: bool)
    ensures in_hd(x, b) <==> b == f64_hd(x) {}
pub open spec fn bits_u8(bits: Seq<bool>) -> Seq<u8> { bits.map_values(|b: bool| if b { 1u8 } else { 0u8 }) }
#[derive(PartialEq, Eq, Debug, Clone)]
pub struct SparseMatrix { rows: Vec<Vec<usize>>, cols: Vec<Vec<usize>> }
#[derive(Debug, Clone, Eq, PartialEq, Hash)]
pub struct DecoderOutput {
    pub codeword: Vec<u8>,
    pub iterations: usize,
}

#[derive(Debug, Copy, Clone, Eq, PartialEq, Default, Hash)]
pub struct Message<T> {
    pub source: usize,
    pub value: T,
}

#[derive(Debug, Copy, Clone, Eq, PartialEq, Default, Hash)]
pub struct SentMessage<T> {
    pub dest: usize,
    pub value: T,
}

#[derive(Debug, Clone, Eq, PartialEq, Default, Hash)]
struct Messages<T> {
    per_destination: Box<[Box<[Message<T>]>]>,
}


#[derive(Debug, Clone, Eq, PartialEq, Default, Hash)]
struct SentMessages<T> {
    per_source: Box<[Box<[SentMessage<T>]>]>,
}


pub trait DecoderArithmetic: std::fmt::Debug + Send {
    type Llr: std::fmt::Debug + Copy + Default + Send;
    type CheckMessage: std::fmt::Debug + Copy + Default + Send;
    type VarMessage: std::fmt::Debug + Copy + Default + Send;
    type VarLlr: std::fmt::Debug + Copy + Default + Send;

    spec fn rules(&self) -> int;
    spec fn spec_hd(rules: int, llr: Self::Llr) -> bool;
    spec fn spec_v2l(rules: int, v: Self::VarLlr) -> Self::Llr;
    fn input_llr_quantize(&self, llr: f64) -> Self::Llr;

    fn llr_hard_decision(&self, llr: Self::Llr) -> (b: bool)
        ensures b == Self::spec_hd(self.rules(), llr);

    fn llr_to_var_message(&self, llr: Self::Llr) -> Self::VarMessage;

    fn llr_to_var_llr(&self, llr: Self::Llr) -> Self::VarLlr;

    fn var_llr_to_llr(&self, var_llr: Self::VarLlr) -> (l: Self::Llr)
        ensures l == Self::spec_v2l(self.rules(), var_llr);

    fn send_check_messages<F>(&mut self, var_messages: &[Message<Self::VarMessage>], send: F)
    where
        F: FnMut(SentMessage<Self::CheckMessage>);

    fn send_var_messages<F>(
        &mut self,
        input_llr: Self::Llr,
        check_messages: &[Message<Self::CheckMessage>],
        send: F,
    ) -> Self::Llr
    where
        F: FnMut(SentMessage<Self::VarMessage>);

    fn update_check_messages_and_vars(
        &mut self,
        check_messages: &mut [SentMessage<Self::CheckMessage>],
        vars: &mut [Self::VarLlr],
    );
}



pub uninterp spec fn hl_init_v<A: DecoderArithmetic>(rules: int, llrs: Seq<f64>) -> Seq<A::VarLlr>;
pub uninterp spec fn hl_init_cm<A: DecoderArithmetic>(h: SparseMatrix) -> SentMessages<A::CheckMessage>;
pub uninterp spec fn hl_iter_v<A: DecoderArithmetic>(rules: int, h: SparseMatrix, cm: SentMessages<A::CheckMessage>, v: Seq<A::VarLlr>) -> Seq<A::VarLlr>;
pub uninterp spec fn hl_iter_cm<A: DecoderArithmetic>(rules: int, h: SparseMatrix, cm: SentMessages<A::CheckMessage>, v: Seq<A::VarLlr>) -> SentMessages<A::CheckMessage>;
pub open spec fn hl_v_k<A: DecoderArithmetic>(rules: int, h: SparseMatrix, llrs: Seq<f64>, k: nat) -> Seq<A::VarLlr> decreases k {
    if k == 0 { hl_init_v::<A>(rules, llrs) } else { hl_iter_v::<A>(rules, h, hl_cm_k::<A>(rules, h, llrs, (k-1) as nat), hl_v_k::<A>(rules, h, llrs, (k-1) as nat)) }
}
pub open spec fn hl_cm_k<A: DecoderArithmetic>(rules: int, h: SparseMatrix, llrs: Seq<f64>, k: nat) -> SentMessages<A::CheckMessage> decreases k {
    if k == 0 { hl_init_cm::<A>(h) } else { hl_iter_cm::<A>(rules, h, hl_cm_k::<A>(rules, h, llrs, (k-1) as nat), hl_v_k::<A>(rules, h, llrs, (k-1) as nat)) }
}
pub open spec fn hl_bits<A: DecoderArithmetic>(rules: int, v: Seq<A::VarLlr>) -> Seq<bool> { v.map_values(|x: A::VarLlr| A::spec_hd(rules, A::spec_v2l(rules, x))) }
pub open spec fn hl_ok_at<A: DecoderArithmetic>(rules: int, h: SparseMatrix, llrs: Seq<f64>, k: nat) -> bool { parity_ok(h, hl_bits::<A>(rules, hl_v_k::<A>(rules, h, llrs, k))) }
pub open spec fn sgn(llrs: Seq<f64>) -> Seq<bool> { llrs.map_values(|x: f64| f64_hd(x)) }

#[verifier::external_body]
fn check_llrs<T, F>(h: &SparseMatrix, llrs: &[T], hard_decision: F) -> (b: bool)
where T: Copy, F: Fn(T) -> bool,
    requires forall|x: T| #[trigger] hard_decision.requires((x,)),
    ensures exists|bits: Seq<bool>| bits.len() == llrs.len() && (forall|i: int| 0 <= i < llrs.len() ==> hard_decision.ensures((#[trigger] llrs[i],), bits[i])) && b == #[trigger] parity_ok(*h, bits),
{ unimplemented!() }
#[verifier::external_body]
fn hard_decisions<T, F>(llrs: &[T], hard_decision: F) -> (v: Vec<u8>)
where T: Copy, F: Fn(T) -> bool,
    requires forall|x: T| #[trigger] hard_decision.requires((x,)),
    ensures v.len() == llrs.len(),
        forall|i: int| 0 <= i < llrs.len() ==> (#[trigger] v[i] == 0u8 || v[i] == 1u8) && hard_decision.ensures((llrs[i],), v[i] == 1u8),
{ unimplemented!() }

mod horizontal_layered {
use super::*;
#[derive(Debug, Clone, PartialEq)]
pub struct Decoder<A: DecoderArithmetic> {
    arithmetic: A,
    h: SparseMatrix,
    llrs: Box<[A::VarLlr]>,                        // Qv
    check_messages: SentMessages<A::CheckMessage>, // Rcv
}


impl<A: DecoderArithmetic> Decoder<A> {
    pub closed spec fn n(&self) -> int { self.llrs.len() as int }
    pub closed spec fn rules(&self) -> int { self.arithmetic.rules() }
    pub closed spec fn hmat(&self) -> SparseMatrix { self.h }

    pub fn decode(
        &mut self,
        llrs: &[f64],
        max_iterations: usize,
    ) -> (res: Result<DecoderOutput, DecoderOutput>)
        requires llrs.len() == old(self).n(), max_iterations < usize::MAX,
        ensures
            final(self).rules() == old(self).rules(), final(self).hmat() == old(self).hmat(), final(self).n() == old(self).n(),
            ({
                let r0 = old(self).rules(); let h0 = old(self).hmat(); let l = llrs@;
                &&& (parity_ok(h0, sgn(l)) ==> res is Ok && res->Ok_0.iterations == 0 && res->Ok_0.codeword@.len() == l.len()
                        && forall|i: int| 0 <= i < l.len() ==> (#[trigger] res->Ok_0.codeword@[i] == 1u8) == f64_hd(l[i]) && (res->Ok_0.codeword@[i] == 0u8 || res->Ok_0.codeword@[i] == 1u8))
                &&& (!parity_ok(h0, sgn(l)) ==> {
                    &&& res is Ok ==> {
                        let k = res->Ok_0.iterations as nat;
                        &&& 1 <= k <= max_iterations
                        &&& hl_ok_at::<A>(r0, h0, l, k)
                        &&& forall|j: nat| 1 <= j < k ==> !hl_ok_at::<A>(r0, h0, l, j)
                        &&& res->Ok_0.codeword@.len() == l.len()
                        &&& forall|i: int| 0 <= i < l.len() ==> (#[trigger] res->Ok_0.codeword@[i] == 1u8) == hl_bits::<A>(r0, hl_v_k::<A>(r0, h0, l, k))[i] && (res->Ok_0.codeword@[i] == 0u8 || res->Ok_0.codeword@[i] == 1u8)
                    }
                    &&& res is Err ==> {
                        let k = max_iterations as nat;
                        &&& res->Err_0.iterations == max_iterations
                        &&& forall|j: nat| 1 <= j <= k ==> !hl_ok_at::<A>(r0, h0, l, j)
                        &&& res->Err_0.codeword@.len() == l.len()
                        &&& forall|i: int| 0 <= i < l.len() ==> (#[trigger] res->Err_0.codeword@[i] == 1u8) == hl_bits::<A>(r0, hl_v_k::<A>(r0, h0, l, k))[i] && (res->Err_0.codeword@[i] == 0u8 || res->Err_0.codeword@[i] == 1u8)
                    }
                })
            }),
    {
        assert!(llrs.len() == self.llrs.len());
        let input_llrs_hard_decision = |x: f64| -> (b: bool) ensures in_hd(x, b) { x <= 0.0 };
        let ghost h0 = self.h;
        let ghost r0 = self.arithmetic.rules();
        let ghost s0 = sgn(llrs@);
        if check_llrs(&self.h, llrs, input_llrs_hard_decision) {
            proof {
                let bits = choose|bits: Seq<bool>| bits.len() == llrs.len() && (forall|i: int| 0 <= i < llrs.len() ==> input_llrs_hard_decision.ensures((#[trigger] llrs[i],), bits[i])) && #[trigger] parity_ok(self.h, bits);
                assert forall|i: int| 0 <= i < llrs.len() implies bits[i] == s0[i] by { assert(input_llrs_hard_decision.ensures((llrs[i],), bits[i])); axiom_f64_le_functional(llrs[i], bits[i]); }
                assert(bits =~= s0);
                assert forall|x: f64, b: bool| input_llrs_hard_decision.ensures((x,), b) implies b == f64_hd(x) by { axiom_f64_le_functional(x, b); }
            }
            // No bit errors case
            return Ok(DecoderOutput {
                codeword: hard_decisions(llrs, input_llrs_hard_decision),
                iterations: 0,
            });
        }
        proof {
            let bits = choose|bits: Seq<bool>| bits.len() == llrs.len() && (forall|i: int| 0 <= i < llrs.len() ==> input_llrs_hard_decision.ensures((#[trigger] llrs[i],), bits[i])) && !(#[trigger] parity_ok(self.h, bits));
            assert forall|i: int| 0 <= i < llrs.len() implies bits[i] == s0[i] by { assert(input_llrs_hard_decision.ensures((llrs[i],), bits[i])); axiom_f64_le_functional(llrs[i], bits[i]); }
            assert(bits =~= s0);
        }
        self.initialize(llrs);
        for iteration in 1..=max_iterations
            invariant
                self.h == h0, self.arithmetic.rules() == r0, h0 == old(self).h, r0 == old(self).arithmetic.rules(),
                llrs.len() == old(self).llrs.len(), self.llrs.len() == llrs.len(), max_iterations < usize::MAX,
                !parity_ok(h0, sgn(llrs@)),
                self.llrs@ == hl_v_k::<A>(r0, h0, llrs@, (iteration - 1) as nat),
                self.check_messages == hl_cm_k::<A>(r0, h0, llrs@, (iteration - 1) as nat),
                forall|j: nat| 1 <= j < iteration ==> !hl_ok_at::<A>(r0, h0, llrs@, j),
        {
            self.process_check_nodes();
            proof {
                assert(self.llrs@ == hl_v_k::<A>(r0, h0, llrs@, iteration as nat));
                assert(self.check_messages == hl_cm_k::<A>(r0, h0, llrs@, iteration as nat));
            }
            if check_llrs(&self.h, &self.llrs, |x: A::VarLlr| -> (b: bool) ensures b == A::spec_hd(r0, A::spec_v2l(r0, x)) {
                self.arithmetic
                    .llr_hard_decision(self.arithmetic.var_llr_to_llr(x))
            }) {
                proof {
                    let bb = choose|bb: Seq<bool>| bb.len() == self.llrs.len() && (forall|i: int| 0 <= i < self.llrs.len() ==> (#[trigger] bb[i]) == A::spec_hd(r0, A::spec_v2l(r0, self.llrs[i]))) && parity_ok(self.h, bb);
                    assert(bb =~= hl_bits::<A>(r0, self.llrs@));
                }
                // Decode succeeded
                return Ok(DecoderOutput {
                    codeword: hard_decisions(&self.llrs, |x: A::VarLlr| -> (b: bool) ensures b == A::spec_hd(r0, A::spec_v2l(r0, x)) {
                        self.arithmetic
                            .llr_hard_decision(self.arithmetic.var_llr_to_llr(x))
                    }),
                    iterations: iteration,
                });
            }
            proof {
                let bb = choose|bb: Seq<bool>| bb.len() == self.llrs.len() && (forall|i: int| 0 <= i < self.llrs.len() ==> (#[trigger] bb[i]) == A::spec_hd(r0, A::spec_v2l(r0, self.llrs[i]))) && !parity_ok(self.h, bb);
                assert(bb =~= hl_bits::<A>(r0, self.llrs@));
                assert(!hl_ok_at::<A>(r0, h0, llrs@, iteration as nat));
            }
        }
        // Decode failed
        Err(DecoderOutput {
            codeword: hard_decisions(&self.llrs, |x: A::VarLlr| -> (b: bool) ensures b == A::spec_hd(r0, A::spec_v2l(r0, x)) {
                self.arithmetic
                    .llr_hard_decision(self.arithmetic.var_llr_to_llr(x))
            }),
            iterations: max_iterations,
        })
    }

    #[verifier::external_body]
    fn initialize(&mut self, llrs: &[f64])
        requires llrs.len() == old(self).llrs.len(),
        ensures final(self).h == old(self).h, final(self).arithmetic.rules() == old(self).arithmetic.rules(),
            final(self).llrs.len() == old(self).llrs.len(),
            final(self).llrs@ == hl_init_v::<A>(old(self).arithmetic.rules(), llrs@),
            final(self).check_messages == hl_init_cm::<A>(old(self).h),
    { unimplemented!() }
    #[verifier::external_body]
    fn process_check_nodes(&mut self)
        ensures final(self).h == old(self).h, final(self).arithmetic.rules() == old(self).arithmetic.rules(),
            final(self).llrs.len() == old(self).llrs.len(),
            final(self).llrs@ == hl_iter_v::<A>(old(self).arithmetic.rules(), old(self).h, old(self).check_messages, old(self).llrs@),
            final(self).check_messages == hl_iter_cm::<A>(old(self).arithmetic.rules(), old(self).h, old(self).check_messages, old(self).llrs@),
    { unimplemented!() }
}
}
} // verus!
fn main() {}
