//! Kani harnesses on the compiled real crate (path dependency on /repo with
//! feature verif-hooks).  No contract attribute is placed on repository
//! functions: contracts are postconditions checked here against the public
//! trait methods.  See /verif/DESIGN.md sections 3.3 and 5.
#![allow(dead_code, unused_imports, unused_macros, non_snake_case, unused_comparisons)]

#[cfg(kani)]
pub mod stubs;
#[cfg(kani)]
mod c05;
#[cfg(kani)]
mod c04;
#[cfg(kani)]
mod c15;
#[cfg(kani)]
mod c18;
#[cfg(kani)]
mod c14;
#[cfg(kani)]
mod c17;
#[cfg(kani)]
mod c01;
#[cfg(kani)]
mod c03;
#[cfg(kani)]
mod c04f;
