//! C01 / C10 witness searches: every implementation name, two small matrices,
//! LLR vectors over {+-1.5, +-0.04, 0}, limits 0..=2.
use clap::ValueEnum;
use ldpc_toolbox::decoder::factory::{DecoderFactory, DecoderImplementation};
use ldpc_toolbox::decoder::DecoderOutput;
use ldpc_toolbox::sparse::SparseMatrix;

pub fn matrices() -> Vec<(&'static str, SparseMatrix)> {
    let mut h1 = SparseMatrix::new(2, 3);
    h1.insert_row(0, [0usize, 1].iter());
    h1.insert_row(1, [1usize, 2].iter());
    let mut h2 = SparseMatrix::new(3, 4);
    h2.insert_row(0, [0usize, 1, 2].iter());
    h2.insert_row(1, [0usize, 1, 3].iter());
    h2.insert_row(2, [2usize, 3].iter());
    vec![("H1=[[1,1,0],[0,1,1]]", h1), ("H2=[[1,1,1,0],[1,1,0,1],[0,0,1,1]]", h2)]
}

const VALUES: [f64; 5] = [1.5, -1.5, 0.04, -0.04, 0.0];

pub fn vectors(n: usize) -> Vec<Vec<f64>> {
    let mut out = Vec::new();
    let total = VALUES.len().pow(n as u32);
    for code in 0..total {
        let mut x = code;
        let mut v = Vec::new();
        for _ in 0..n {
            v.push(VALUES[x % VALUES.len()]);
            x /= VALUES.len();
        }
        out.push(v);
    }
    out
}

fn parity_ok(h: &SparseMatrix, word: &[u8]) -> bool {
    (0..h.num_rows()).all(|r| h.iter_row(r).filter(|&&c| word[c] == 1).count() % 2 == 0)
}

fn show(r: &Result<DecoderOutput, DecoderOutput>) -> String {
    match r {
        Ok(o) => format!("Ok(word={:?}, iterations={})", o.codeword, o.iterations),
        Err(o) => format!("Err(word={:?}, iterations={})", o.codeword, o.iterations),
    }
}

pub fn search_c01() -> bool {
    for imp in DecoderImplementation::value_variants() {
        for (hname, h) in matrices() {
            let n = h.num_cols();
            for llrs in vectors(n) {
                for limit in 0..=2usize {
                    let mut dec = imp.build_decoder(h.clone());
                    let res = dec.decode(&llrs, limit);
                    let signs: Vec<u8> = llrs.iter().map(|x| u8::from(*x <= 0.0)).collect();
                    let sign_ok = parity_ok(&h, &signs);
                    let bad = match &res {
                        Ok(o) => {
                            o.codeword.len() != n
                                || !parity_ok(&h, &o.codeword)
                                || o.iterations > limit
                                || (o.iterations == 0) != sign_ok
                                || (o.iterations == 0 && o.codeword != signs)
                        }
                        Err(o) => {
                            o.codeword.len() != n || o.iterations != limit || (limit >= 1 && parity_ok(&h, &o.codeword)) || sign_ok
                        }
                    };
                    if bad {
                        crate::report(
                            &format!("{imp} on {hname}: decode({llrs:?}, {limit})"),
                            &show(&res),
                            "a result satisfying the C01 relation (sign pattern satisfies checks: {sign_ok})",
                        );
                        return true;
                    }
                }
            }
        }
    }
    false
}

pub fn search_c10() -> bool {
    for imp in DecoderImplementation::value_variants() {
        for (hname, h) in matrices().into_iter().take(1) {
            let n = h.num_cols();
            let vs = vectors(n);
            for a in &vs {
                for la in 0..=1usize {
                    for b in &vs {
                        for lb in 0..=1usize {
                            let mut used = imp.build_decoder(h.clone());
                            let _ = used.decode(a, la);
                            let r1 = used.decode(b, lb);
                            let mut fresh = imp.build_decoder(h.clone());
                            let r2 = fresh.decode(b, lb);
                            if r1 != r2 {
                                crate::report(
                                    &format!("{imp} on {hname}: decode({a:?}, {la}) then decode({b:?}, {lb})"),
                                    &show(&r1),
                                    &format!("what a fresh decoder returns: {}", show(&r2)),
                                );
                                return true;
                            }
                        }
                    }
                }
            }
        }
    }
    false
}
