"""Per-property configuration: which Verus units and Kani harnesses decide it."""

# Verus unit: unit name, template (relative to /verif/specs), rlimit, canary?
# `defines` select @ifdef sections of the template.

PROPS = {
    "C17": {
        "level": "proof",
        "title": "Sparse-matrix editing behaves like a set of (row, column) positions",
        "verus": [
            {"unit": "sparse", "template": "sparse/unit.rs.in", "rlimit": 60, "canary": True},
        ],
        "kani": {"quick": [], "thorough": []},
        "witness": "sparse",
        "assumptions": [
            "vstd specs of Vec/slice/Option (push, len, index, clear, iter)",
            "assume_specification for <[T]>::contains and Vec::retain (over the closure's ensures)",
            "SparseMatrix::new trusted (iterator adaptors; postcondition: empty, right shape)",
            "usize is 64-bit",
        ],
    },
    "C06": {
        "level": "proof",
        "title": "DVB-S2 parity-check matrices conform to ETSI EN 302 307-1",
        "verus": [
            {"unit": "dvbs2_dims", "template": "dvbs2/unit_dims.rs.in", "rlimit": 60, "canary": True},
        ],
        "kani": {"quick": [], "thorough": []},
        "witness": "c06",
        "assumptions": [
            "the standard's tables (n, k, q, degree profile) as transcribed in specs/dvbs2/std.rs.in",
            "usize is 64-bit",
        ],
    },
}
