//! C05: quantiser, clip, variable rule, layered/flooding consistency of the 8-bit arithmetics.
use crate::stubs::*;
use ldpc_toolbox::decoder::arithmetic::*;
use ldpc_toolbox::decoder::{Message, SentMessage};

pub fn clamp127(x: i32) -> i32 {
    if x >= 127 { 127 } else if x <= -127 { -127 } else { x }
}

macro_rules! c05_8bit {
    ($ty:ident, $jones:expr, $deg1:expr,
     $q:ident, $clip:ident, $var8:ident, $var200:ident, $lay2:ident, $lay3:ident) => {
        #[kani::proof]
        #[kani::unwind(4)]
        fn $lay2() {
            layered_rule::<$ty, 2>(<$ty>::verif_with_table(spec_table()), <$ty>::verif_with_table(spec_table()));
        }
        #[kani::proof]
        #[kani::unwind(5)]
        fn $lay3() {
            layered_rule::<$ty, 3>(<$ty>::verif_with_table(spec_table()), <$ty>::verif_with_table(spec_table()));
        }

        /// every f64 whatsoever: no panic, result in [-127,127], round-half-away(8x) saturated
        #[kani::proof]
        #[kani::unwind(4)]
        fn $q() {
            let a = <$ty>::verif_with_table(spec_table());
            let x: f64 = kani::any();
            let q = a.input_llr_quantize(x);
            assert!(q >= -127 && q <= 127);
            if x.is_finite() {
                let y = 8.0 * x;
                if y >= 127.0 {
                    assert!(q == 127);
                } else if y <= -127.0 {
                    assert!(q == -127);
                } else {
                    let r = q as f64;
                    assert!((y - r).abs() <= 0.5);
                    if (y - r).abs() == 0.5 {
                        assert!(r.abs() > y.abs());
                    }
                }
            }
            kani::cover!(q == 127);
            kani::cover!(q == -127);
            kani::cover!(q == 3 && x > 0.4);
            kani::cover!(x.is_nan());
        }

        /// var_llr_to_llr is the symmetric saturation to [-127,127], every i16
        #[kani::proof]
        #[kani::unwind(4)]
        fn $clip() {
            let a = <$ty>::verif_with_table(spec_table());
            let v: i16 = kani::any();
            let r = a.var_llr_to_llr(v);
            assert!(r as i32 == clamp127(v as i32));
            let l: i8 = kani::any();
            assert!(a.llr_to_var_llr(l) == l as i16);
            assert!(a.llr_to_var_message(l) == l);
            assert!(a.llr_hard_decision(l) == (l <= 0));
            kani::cover!(r == 127 && v > 300);
            kani::cover!(r == -127);
            kani::cover!(r == 5);
        }

        #[kani::proof]
        #[kani::unwind(10)]
        fn $var8() {
            var_rule::<$ty, 8>(<$ty>::verif_with_table(spec_table()), $jones, $deg1);
        }

        #[kani::proof]
        #[kani::unwind(34)]
        fn $var200() {
            // thorough tier: degrees 1..=32, full functional form.  (Degrees up to 200 - the
            // property's range - did not finish: 44 GB / 44 min for the full form, > 50 min for a
            // form that only counts the messages and checks the returned LLR.)
            var_rule::<$ty, 32>(<$ty>::verif_with_table(spec_table()), $jones, $deg1);
        }
    };
}

/// layered single-check update == flooding check rule applied to the extrinsic values
/// (variable LLR minus old check message, saturated), followed by adding the new message;
/// all states inside the envelope |variable LLR| <= 127 * 4
fn layered_rule<A, const D: usize>(mut lay: A, mut flo: A)
where
    A: DecoderArithmetic<Llr = i8, CheckMessage = i8, VarMessage = i8, VarLlr = i16>,
{
    let mut msgs = [SentMessage { dest: 0usize, value: 0i8 }; D];
    let mut vars = [0i16; D];
    let mut ext = [Message { source: 0usize, value: 0i8 }; D];
    let mut base = [0i32; D];
    for k in 0..D {
        let m: i8 = kani::any();
        kani::assume(m >= -127);
        let v: i16 = kani::any();
        kani::assume(v >= -508 && v <= 508);
        msgs[k] = SentMessage { dest: k, value: m };
        vars[k] = v;
        base[k] = v as i32 - m as i32;
        ext[k] = Message { source: k, value: clamp127(base[k]) as i8 };
    }
    let mut r = [0i32; D];
    let mut n = 0usize;
    flo.send_check_messages(&ext, |s: SentMessage<i8>| {
        if s.dest < D {
            r[s.dest] = s.value as i32;
        }
        n += 1;
    });
    assert!(n == D);
    lay.update_check_messages_and_vars(&mut msgs, &mut vars);
    for k in 0..D {
        assert!(msgs[k].dest == k);
        assert!(msgs[k].value as i32 == r[k]);
        assert!(vars[k] as i32 == base[k] + r[k]);
    }
    kani::cover!(r[0] > 0);
    kani::cover!(r[0] < 0);
    kani::cover!(base[0] > 127);
}

/// degrees 1..=N without collecting the messages (the full functional form above needs > 40 GB at
/// N = 200): exactly n sends, no message is -128, the returned LLR is the saturated (Jones / degree-one
/// clipped) total, and none of Kani's overflow / bounds checks fires
fn var_rule_light<A, const N: usize>(mut a: A, jones: bool, deg1: bool)
where
    A: DecoderArithmetic<Llr = i8, CheckMessage = i8, VarMessage = i8>,
{
    let n: usize = kani::any();
    kani::assume(n >= 1 && n <= N);
    let input: i8 = kani::any();
    kani::assume(input >= -127);
    let mut msgs = [Message { source: 0usize, value: 0i8 }; N];
    let mut total: i32 = 0;
    for k in 0..N {
        let v: i8 = kani::any();
        kani::assume(v >= -127);
        msgs[k].value = v;
        if k < n {
            total += v as i32;
        }
    }
    let mut count = 0usize;
    let mut bad = false;
    let ret = a.send_var_messages(input, &msgs[..n], |m| {
        if m.value == -128 {
            bad = true;
        }
        count += 1;
    });
    let chan = if deg1 && n == 1 { if input >= 116 { 116 } else if input <= -116 { -116 } else { input as i32 } } else { input as i32 };
    let llr = chan + total;
    assert!(count == n);
    assert!(!bad);
    assert!(ret as i32 == clamp127(llr));
    let _ = jones;
    kani::cover!(n == N);
    kani::cover!(llr > 20000);
    kani::cover!(llr < -20000);
}

// degrees 1..=100, full functional form, for the four shapes of `impl_send_var_messages_i8!`
// (Jones clipping x degree-one clipping); the macro body is shared by all sixteen types.
// Measured: 35 min each; 1..=200 (the property's range) did not finish in 50 min.
macro_rules! var100 {
    ($name:ident, $ty:ident, $jones:expr, $deg1:expr) => {
        #[kani::proof]
        #[kani::unwind(102)]
        fn $name() {
            var_rule::<$ty, 100>(<$ty>::verif_with_table(spec_table()), $jones, $deg1);
        }
    };
}
var100!(c05_var100__Minstarapproxi8, Minstarapproxi8, false, false);
var100!(c05_var100__Minstarapproxi8Jones, Minstarapproxi8Jones, true, false);
var100!(c05_var100__Minstarapproxi8Deg1Clip, Minstarapproxi8Deg1Clip, false, true);
var100!(c05_var100__Aminstari8JonesDeg1Clip, Aminstari8JonesDeg1Clip, true, true);

/// variable rule: total = (deg-1-clipped) channel LLR + all messages, optional Jones clipping,
/// message_i = clip(total - m_i), return clip(total); exactly n sends, dest == source, in order
fn var_rule<A, const N: usize>(mut a: A, jones: bool, deg1: bool)
where
    A: DecoderArithmetic<Llr = i8, CheckMessage = i8, VarMessage = i8>,
{
    let n: usize = kani::any();
    kani::assume(n >= 1 && n <= N);
    let input: i8 = kani::any();
    kani::assume(input >= -127);
    let mut msgs = [Message { source: 0usize, value: 0i8 }; N];
    let mut total: i32 = 0;
    for k in 0..N {
        let v: i8 = kani::any();
        kani::assume(v >= -127);
        msgs[k] = Message { source: 1000 + k, value: v };
        if k < n {
            total += v as i32;
        }
    }
    let mut out = [SentMessage { dest: 0usize, value: 0i8 }; N];
    let mut count = 0usize;
    let ret = a.send_var_messages(input, &msgs[..n], |m| {
        if count < N {
            out[count] = m;
        }
        count += 1;
    });
    let chan = if deg1 && n == 1 { if input >= 116 { 116 } else if input <= -116 { -116 } else { input as i32 } } else { input as i32 };
    let mut llr = chan + total;
    let raw = llr;
    if jones {
        llr = clamp127(llr);
    }
    assert!(count == n);
    assert!(ret as i32 == clamp127(llr));
    assert!(ret != -128);
    for k in 0..N {
        if k < n {
            assert!(out[k].dest == 1000 + k);
            assert!(out[k].value as i32 == clamp127(llr - msgs[k].value as i32));
            assert!(out[k].value != -128);
        }
    }
    kani::cover!(n == N);
    kani::cover!(n == 1 && input == 127);
    kani::cover!(raw > 127);
    kani::cover!(raw < -127);
}

c05_8bit!(Minstarapproxi8, false, false, c05_quantize__Minstarapproxi8, c05_clip__Minstarapproxi8, c05_var8__Minstarapproxi8, c05_var32__Minstarapproxi8, c05_layered2__Minstarapproxi8, c05_layered3__Minstarapproxi8);
c05_8bit!(Minstarapproxi8Jones, true, false, c05_quantize__Minstarapproxi8Jones, c05_clip__Minstarapproxi8Jones, c05_var8__Minstarapproxi8Jones, c05_var32__Minstarapproxi8Jones, c05_layered2__Minstarapproxi8Jones, c05_layered3__Minstarapproxi8Jones);
c05_8bit!(Minstarapproxi8PartialHardLimit, false, false, c05_quantize__Minstarapproxi8PartialHardLimit, c05_clip__Minstarapproxi8PartialHardLimit, c05_var8__Minstarapproxi8PartialHardLimit, c05_var32__Minstarapproxi8PartialHardLimit, c05_layered2__Minstarapproxi8PartialHardLimit, c05_layered3__Minstarapproxi8PartialHardLimit);
c05_8bit!(Minstarapproxi8JonesPartialHardLimit, true, false, c05_quantize__Minstarapproxi8JonesPartialHardLimit, c05_clip__Minstarapproxi8JonesPartialHardLimit, c05_var8__Minstarapproxi8JonesPartialHardLimit, c05_var32__Minstarapproxi8JonesPartialHardLimit, c05_layered2__Minstarapproxi8JonesPartialHardLimit, c05_layered3__Minstarapproxi8JonesPartialHardLimit);
c05_8bit!(Minstarapproxi8Deg1Clip, false, true, c05_quantize__Minstarapproxi8Deg1Clip, c05_clip__Minstarapproxi8Deg1Clip, c05_var8__Minstarapproxi8Deg1Clip, c05_var32__Minstarapproxi8Deg1Clip, c05_layered2__Minstarapproxi8Deg1Clip, c05_layered3__Minstarapproxi8Deg1Clip);
c05_8bit!(Minstarapproxi8JonesDeg1Clip, true, true, c05_quantize__Minstarapproxi8JonesDeg1Clip, c05_clip__Minstarapproxi8JonesDeg1Clip, c05_var8__Minstarapproxi8JonesDeg1Clip, c05_var32__Minstarapproxi8JonesDeg1Clip, c05_layered2__Minstarapproxi8JonesDeg1Clip, c05_layered3__Minstarapproxi8JonesDeg1Clip);
c05_8bit!(Minstarapproxi8PartialHardLimitDeg1Clip, false, true, c05_quantize__Minstarapproxi8PartialHardLimitDeg1Clip, c05_clip__Minstarapproxi8PartialHardLimitDeg1Clip, c05_var8__Minstarapproxi8PartialHardLimitDeg1Clip, c05_var32__Minstarapproxi8PartialHardLimitDeg1Clip, c05_layered2__Minstarapproxi8PartialHardLimitDeg1Clip, c05_layered3__Minstarapproxi8PartialHardLimitDeg1Clip);
c05_8bit!(Minstarapproxi8JonesPartialHardLimitDeg1Clip, true, true, c05_quantize__Minstarapproxi8JonesPartialHardLimitDeg1Clip, c05_clip__Minstarapproxi8JonesPartialHardLimitDeg1Clip, c05_var8__Minstarapproxi8JonesPartialHardLimitDeg1Clip, c05_var32__Minstarapproxi8JonesPartialHardLimitDeg1Clip, c05_layered2__Minstarapproxi8JonesPartialHardLimitDeg1Clip, c05_layered3__Minstarapproxi8JonesPartialHardLimitDeg1Clip);
c05_8bit!(Aminstari8, false, false, c05_quantize__Aminstari8, c05_clip__Aminstari8, c05_var8__Aminstari8, c05_var32__Aminstari8, c05_layered2__Aminstari8, c05_layered3__Aminstari8);
c05_8bit!(Aminstari8Jones, true, false, c05_quantize__Aminstari8Jones, c05_clip__Aminstari8Jones, c05_var8__Aminstari8Jones, c05_var32__Aminstari8Jones, c05_layered2__Aminstari8Jones, c05_layered3__Aminstari8Jones);
c05_8bit!(Aminstari8PartialHardLimit, false, false, c05_quantize__Aminstari8PartialHardLimit, c05_clip__Aminstari8PartialHardLimit, c05_var8__Aminstari8PartialHardLimit, c05_var32__Aminstari8PartialHardLimit, c05_layered2__Aminstari8PartialHardLimit, c05_layered3__Aminstari8PartialHardLimit);
c05_8bit!(Aminstari8JonesPartialHardLimit, true, false, c05_quantize__Aminstari8JonesPartialHardLimit, c05_clip__Aminstari8JonesPartialHardLimit, c05_var8__Aminstari8JonesPartialHardLimit, c05_var32__Aminstari8JonesPartialHardLimit, c05_layered2__Aminstari8JonesPartialHardLimit, c05_layered3__Aminstari8JonesPartialHardLimit);
c05_8bit!(Aminstari8Deg1Clip, false, true, c05_quantize__Aminstari8Deg1Clip, c05_clip__Aminstari8Deg1Clip, c05_var8__Aminstari8Deg1Clip, c05_var32__Aminstari8Deg1Clip, c05_layered2__Aminstari8Deg1Clip, c05_layered3__Aminstari8Deg1Clip);
c05_8bit!(Aminstari8JonesDeg1Clip, true, true, c05_quantize__Aminstari8JonesDeg1Clip, c05_clip__Aminstari8JonesDeg1Clip, c05_var8__Aminstari8JonesDeg1Clip, c05_var32__Aminstari8JonesDeg1Clip, c05_layered2__Aminstari8JonesDeg1Clip, c05_layered3__Aminstari8JonesDeg1Clip);
c05_8bit!(Aminstari8PartialHardLimitDeg1Clip, false, true, c05_quantize__Aminstari8PartialHardLimitDeg1Clip, c05_clip__Aminstari8PartialHardLimitDeg1Clip, c05_var8__Aminstari8PartialHardLimitDeg1Clip, c05_var32__Aminstari8PartialHardLimitDeg1Clip, c05_layered2__Aminstari8PartialHardLimitDeg1Clip, c05_layered3__Aminstari8PartialHardLimitDeg1Clip);
c05_8bit!(Aminstari8JonesPartialHardLimitDeg1Clip, true, true, c05_quantize__Aminstari8JonesPartialHardLimitDeg1Clip, c05_clip__Aminstari8JonesPartialHardLimitDeg1Clip, c05_var8__Aminstari8JonesPartialHardLimitDeg1Clip, c05_var32__Aminstari8JonesPartialHardLimitDeg1Clip, c05_layered2__Aminstari8JonesPartialHardLimitDeg1Clip, c05_layered3__Aminstari8JonesPartialHardLimitDeg1Clip);

include!("c05_more.rs");
include!("c05_scratch.rs");

// a concrete playback test printed by Kani for a failing harness of this module is replayed from here
include!(concat!(env!("VERIF_KANI_GEN"), "/playback_c05.rs"));
