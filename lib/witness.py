"""Directed witness search: native program against the real crate (never decides anything)."""
import json, os, subprocess
from unitgen import VERIF, REPO, WORK

_built = {}


def build(log):
    crate = os.path.join(WORK, "replay-crate")
    os.makedirs(crate, exist_ok=True)
    toml = open(os.path.join(VERIF, "replay", "Cargo.toml.in")).read().replace("@REPO@", REPO).replace(
        "@SRC@", os.path.join(VERIF, "replay", "src"))
    p = os.path.join(crate, "Cargo.toml")
    if not os.path.exists(p) or open(p).read() != toml:
        open(p, "w").write(toml)
    lock = os.path.join(REPO, "Cargo.lock")
    if os.path.exists(lock) and not os.path.exists(os.path.join(crate, "Cargo.lock")):
        open(os.path.join(crate, "Cargo.lock"), "w").write(open(lock).read())
    env = dict(os.environ, CARGO_NET_OFFLINE="true", CARGO_TARGET_DIR=os.path.join(WORK, "replay-target"))
    r = subprocess.run(["cargo", "build", "--release", "--offline", "--manifest-path", p], env=env,
                       stdout=subprocess.PIPE, stderr=subprocess.STDOUT, text=True)
    if r.returncode != 0:
        log("[witness] replay crate does not build: " + r.stdout[-600:])
        return None
    return os.path.join(WORK, "replay-target", "release", "verif-replay")


def search(pid, which, failure, log, args=None, timeout=600):
    exe = build(log)
    if not exe:
        return None
    try:
        r = subprocess.run([exe, which] + (args or []), stdout=subprocess.PIPE, stderr=subprocess.PIPE, text=True, timeout=timeout)
    except subprocess.TimeoutExpired:
        log("[witness] search timed out")
        return None
    hits = []
    for line in r.stdout.split("\n"):
        line = line.strip()
        if line.startswith("{"):
            try:
                hits.append(json.loads(line))
            except Exception:
                pass
    found = [h for h in hits if h.get("found")]
    if found:
        log(f"[witness] failing input on the real code: {found[0]['input']} -> observed {found[0]['observed']}, expected {found[0]['expected']}")
        return {"found": True, "search": which, "inputs": found[:5]}
    log(f"[witness] search '{which}' found no failing input in its domain")
    return {"found": False, "search": which}
