// A-Min* 8-bit family: whole-decoder harnesses with CONCRETE iteration limits (a symbolic limit does not finish)
#[kani::proof]
#[kani::unwind(7)]
fn c01_h1_l1__Aminstari8() {
    c01_relation_fixed::<_, 3>(flooding::Decoder::new(h1(), <Aminstari8>::verif_with_table(spec_table())), &H1_ROWS, 1);
}
#[kani::proof]
#[kani::unwind(7)]
fn c01_h1_l2__Aminstari8() {
    c01_relation_fixed::<_, 3>(flooding::Decoder::new(h1(), <Aminstari8>::verif_with_table(spec_table())), &H1_ROWS, 2);
}
#[kani::proof]
#[kani::unwind(7)]
fn c01_h1_l1__Aminstari8Jones() {
    c01_relation_fixed::<_, 3>(flooding::Decoder::new(h1(), <Aminstari8Jones>::verif_with_table(spec_table())), &H1_ROWS, 1);
}
#[kani::proof]
#[kani::unwind(7)]
fn c01_h1_l2__Aminstari8Jones() {
    c01_relation_fixed::<_, 3>(flooding::Decoder::new(h1(), <Aminstari8Jones>::verif_with_table(spec_table())), &H1_ROWS, 2);
}
#[kani::proof]
#[kani::unwind(7)]
fn c01_h1_l1__Aminstari8PartialHardLimit() {
    c01_relation_fixed::<_, 3>(flooding::Decoder::new(h1(), <Aminstari8PartialHardLimit>::verif_with_table(spec_table())), &H1_ROWS, 1);
}
#[kani::proof]
#[kani::unwind(7)]
fn c01_h1_l2__Aminstari8PartialHardLimit() {
    c01_relation_fixed::<_, 3>(flooding::Decoder::new(h1(), <Aminstari8PartialHardLimit>::verif_with_table(spec_table())), &H1_ROWS, 2);
}
#[kani::proof]
#[kani::unwind(7)]
fn c01_h1_l1__Aminstari8JonesPartialHardLimit() {
    c01_relation_fixed::<_, 3>(flooding::Decoder::new(h1(), <Aminstari8JonesPartialHardLimit>::verif_with_table(spec_table())), &H1_ROWS, 1);
}
#[kani::proof]
#[kani::unwind(7)]
fn c01_h1_l2__Aminstari8JonesPartialHardLimit() {
    c01_relation_fixed::<_, 3>(flooding::Decoder::new(h1(), <Aminstari8JonesPartialHardLimit>::verif_with_table(spec_table())), &H1_ROWS, 2);
}
#[kani::proof]
#[kani::unwind(7)]
fn c01_h1_l1__Aminstari8Deg1Clip() {
    c01_relation_fixed::<_, 3>(flooding::Decoder::new(h1(), <Aminstari8Deg1Clip>::verif_with_table(spec_table())), &H1_ROWS, 1);
}
#[kani::proof]
#[kani::unwind(7)]
fn c01_h1_l2__Aminstari8Deg1Clip() {
    c01_relation_fixed::<_, 3>(flooding::Decoder::new(h1(), <Aminstari8Deg1Clip>::verif_with_table(spec_table())), &H1_ROWS, 2);
}
#[kani::proof]
#[kani::unwind(7)]
fn c01_h1_l1__Aminstari8JonesDeg1Clip() {
    c01_relation_fixed::<_, 3>(flooding::Decoder::new(h1(), <Aminstari8JonesDeg1Clip>::verif_with_table(spec_table())), &H1_ROWS, 1);
}
#[kani::proof]
#[kani::unwind(7)]
fn c01_h1_l2__Aminstari8JonesDeg1Clip() {
    c01_relation_fixed::<_, 3>(flooding::Decoder::new(h1(), <Aminstari8JonesDeg1Clip>::verif_with_table(spec_table())), &H1_ROWS, 2);
}
#[kani::proof]
#[kani::unwind(7)]
fn c01_h1_l1__Aminstari8PartialHardLimitDeg1Clip() {
    c01_relation_fixed::<_, 3>(flooding::Decoder::new(h1(), <Aminstari8PartialHardLimitDeg1Clip>::verif_with_table(spec_table())), &H1_ROWS, 1);
}
#[kani::proof]
#[kani::unwind(7)]
fn c01_h1_l2__Aminstari8PartialHardLimitDeg1Clip() {
    c01_relation_fixed::<_, 3>(flooding::Decoder::new(h1(), <Aminstari8PartialHardLimitDeg1Clip>::verif_with_table(spec_table())), &H1_ROWS, 2);
}
#[kani::proof]
#[kani::unwind(7)]
fn c01_h1_l1__Aminstari8JonesPartialHardLimitDeg1Clip() {
    c01_relation_fixed::<_, 3>(flooding::Decoder::new(h1(), <Aminstari8JonesPartialHardLimitDeg1Clip>::verif_with_table(spec_table())), &H1_ROWS, 1);
}
#[kani::proof]
#[kani::unwind(7)]
fn c01_h1_l2__Aminstari8JonesPartialHardLimitDeg1Clip() {
    c01_relation_fixed::<_, 3>(flooding::Decoder::new(h1(), <Aminstari8JonesPartialHardLimitDeg1Clip>::verif_with_table(spec_table())), &H1_ROWS, 2);
}
#[kani::proof]
#[kani::unwind(7)]
fn c01_h1_l1__HLAminstari8() {
    c01_relation_fixed::<_, 3>(horizontal_layered::Decoder::new(h1(), <Aminstari8>::verif_with_table(spec_table())), &H1_ROWS, 1);
}
#[kani::proof]
#[kani::unwind(7)]
fn c01_h1_l2__HLAminstari8() {
    c01_relation_fixed::<_, 3>(horizontal_layered::Decoder::new(h1(), <Aminstari8>::verif_with_table(spec_table())), &H1_ROWS, 2);
}
#[kani::proof]
#[kani::unwind(7)]
fn c01_h1_l1__HLAminstari8PartialHardLimit() {
    c01_relation_fixed::<_, 3>(horizontal_layered::Decoder::new(h1(), <Aminstari8PartialHardLimit>::verif_with_table(spec_table())), &H1_ROWS, 1);
}
#[kani::proof]
#[kani::unwind(7)]
fn c01_h1_l2__HLAminstari8PartialHardLimit() {
    c01_relation_fixed::<_, 3>(horizontal_layered::Decoder::new(h1(), <Aminstari8PartialHardLimit>::verif_with_table(spec_table())), &H1_ROWS, 2);
}
