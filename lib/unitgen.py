"""Generate a Verus unit from a spec template and the *current* /repo sources.

Template format (specs/<unit>/*.rs.in): ordinary Verus text, plus blocks

    @extract file=src/sparse.rs item="impl SparseMatrix::insert" [mode=trusted] [name=insert]
    @expectsig pub fn insert(&mut self, row: usize, col: usize)
    @sig [ret=b]
        requires ..
        ensures ..
    @at if[0].then.end
        proof { .. }
    @closure 0 types="&usize"
        -> (b: bool) ensures b == (*c__r != col)
    @loopiter 0 name=it
    @end

Lines starting with `//@canary ` are comments in the real unit and become live
text in the canary unit (a copy that must FAIL to verify).
`@include other.rs.in` pulls in another template file of the same directory or
of a sibling unit (path relative to specs/).
"""
import json, os, shlex, subprocess, hashlib

VERIF = os.path.dirname(os.path.dirname(os.path.abspath(__file__)))
REPO = os.environ.get("VERIF_REPO", "/repo")
WORK = os.environ.get("VERIF_WORK") or os.path.join(VERIF, ".work")
EXTRACT_BIN = os.path.join(VERIF, ".work", "extract-target", "release", "extract")


class Undecided(Exception):
    """lost anchor / unsupported construct / resource limit: exit 2, never an alarm"""


def ensure_extractor():
    src = os.path.join(VERIF, "tools", "extract", "src", "main.rs")
    if os.path.exists(EXTRACT_BIN) and os.path.getmtime(EXTRACT_BIN) >= os.path.getmtime(src):
        return
    env = dict(os.environ, CARGO_NET_OFFLINE="true", CARGO_TARGET_DIR=os.path.join(VERIF, ".work", "extract-target"))
    r = subprocess.run(["cargo", "build", "--release", "--offline", "--manifest-path",
                        os.path.join(VERIF, "tools", "extract", "Cargo.toml")],
                       env=env, stdout=subprocess.PIPE, stderr=subprocess.STDOUT, text=True)
    if r.returncode != 0:
        raise Undecided("extractor build failed:\n" + r.stdout[-3000:])


def _kv(tokens):
    d = {}
    for t in tokens:
        if "=" in t:
            k, v = t.split("=", 1)
            d[k] = v
        else:
            d[t] = True
    return d


def _read_template(path, seen=None):
    seen = seen or set()
    if path in seen:
        raise Undecided(f"recursive @include {path}")
    seen.add(path)
    out = []
    for line in open(path).read().split("\n"):
        if line.startswith("@include "):
            inc = line.split(None, 1)[1].strip()
            p = os.path.join(os.path.dirname(path), inc)
            if not os.path.exists(p):
                p = os.path.join(VERIF, "specs", inc)
            out.extend(_read_template(p, seen))
        else:
            out.append(line)
    return out


def parse_template(path, defines=None):
    """returns list of segments: ('text', [lines]) | ('extract', dict)
    `@ifdef NAME` / `@ifndef NAME` / `@endif` select lines by the `defines` set."""
    defines = defines or set()
    lines = _read_template(path)
    segs = []
    cur_text = []
    i = 0
    ex = None
    cur_splice = None
    stack = []

    def flush_splice():
        nonlocal cur_splice
        if cur_splice is not None:
            cur_splice["text"] = "\n".join(cur_splice.pop("_lines"))
            ex["splices"].append(cur_splice)
            cur_splice = None

    while i < len(lines):
        line = lines[i]
        i += 1
        if line.startswith("@ifdef ") or line.startswith("@ifndef "):
            name = line.split()[1]
            want = line.startswith("@ifdef ")
            stack.append((name in defines) == want)
            continue
        if line.startswith("@endif"):
            stack.pop()
            continue
        if stack and not all(stack):
            continue
        if ex is None:
            if line.startswith("@extract "):
                if cur_text:
                    segs.append(("text", cur_text))
                    cur_text = []
                kv = _kv(shlex.split(line[len("@extract "):]))
                ex = {"file": kv["file"], "path": kv["item"], "mode": kv.get("mode", "verbatim"),
                      "splices": [], "name": kv.get("name"), "keep_docs": False}
                # `trustable=NAME`: when the define NAME is set, the item is included with its
                # contract only (external_body) - its body is verified by another unit
                if kv.get("trustable") and kv["trustable"] in defines and ex["mode"] == "verbatim":
                    ex["mode"] = "trusted"
                    ex["_contract_only"] = True
            elif line.startswith("@") and not line.startswith("@@"):
                raise Undecided(f"{path}: stray directive {line!r}")
            else:
                cur_text.append(line)
            continue
        # inside an extract block
        if line.startswith("@end"):
            flush_splice()
            if ex.pop("_contract_only", False):
                ex["splices"] = [sp for sp in ex["splices"] if sp["at"] == "sig"]
            segs.append(("extract", ex))
            ex = None
        elif line.startswith("@expectsig "):
            flush_splice()
            ex["expect_sig"] = line[len("@expectsig "):].strip()
        elif line.startswith("@expectbody "):
            flush_splice()
            ex["expect_body"] = line[len("@expectbody "):].strip()
        elif line.startswith("@sig"):
            flush_splice()
            kv = _kv(shlex.split(line[len("@sig"):]))
            cur_splice = {"at": "sig", "_lines": []}
            if "ret" in kv:
                cur_splice["ret"] = kv["ret"]
        elif line.startswith("@at "):
            flush_splice()
            toks = shlex.split(line[len("@at "):])
            kv = _kv(toks[1:])
            cur_splice = {"at": toks[0], "_lines": []}
            if "expect" in kv:
                cur_splice["expect"] = kv["expect"]
            if "ret" in kv:
                cur_splice["ret"] = kv["ret"]
        elif line.startswith("@closure "):
            flush_splice()
            toks = shlex.split(line[len("@closure "):])
            kv = _kv(toks[1:])
            pre = kv.get("in", "")
            cur_splice = {"at": f"{pre}closure[{toks[0]}].header", "_lines": []}
            if "types" in kv:
                cur_splice["types"] = [t.strip() for t in kv["types"].split(";")]
        elif line.startswith("@closureprelude "):
            flush_splice()
            toks = shlex.split(line[len("@closureprelude "):])
            kv = _kv(toks[1:])
            pre = kv.get("in", "")
            cur_splice = {"at": f"{pre}closure[{toks[0]}].prelude", "_lines": []}
        elif line.startswith("@desugarfor "):
            flush_splice()
            toks = shlex.split(line[len("@desugarfor "):])
            kv = _kv(toks[1:])
            pre = kv.get("in", "")
            cur_splice = {"at": f"{pre}loop[{toks[0]}].desugar", "name": kv.get("name", "it"), "expect": "for", "_lines": []}
        elif line.startswith("@borrowcalls "):
            flush_splice()
            toks = shlex.split(line[len("@borrowcalls "):])
            ex["splices"].append({"at": "borrowcalls", "name": toks[0], "text": ""})
        elif line.startswith("@loopiter "):
            flush_splice()
            toks = shlex.split(line[len("@loopiter "):])
            kv = _kv(toks[1:])
            pre = kv.get("in", "")
            ex["splices"].append({"at": f"{pre}loop[{toks[0]}].iter", "name": kv.get("name", "it"), "text": ""})
        elif line.startswith("@") and not line.startswith("@@"):
            raise Undecided(f"{path}: unknown directive {line!r}")
        else:
            if cur_splice is None:
                if line.strip():
                    raise Undecided(f"{path}: text outside a splice in @extract block: {line!r}")
            else:
                cur_splice["_lines"].append(line)
    if ex is not None:
        raise Undecided(f"{path}: unterminated @extract block")
    if cur_text:
        segs.append(("text", cur_text))
    return segs


def _activate_canary(text):
    out = []
    for l in text.split("\n"):
        s = l.lstrip()
        if s.startswith("//@canary "):
            out.append(l.replace("//@canary ", "", 1))
        else:
            out.append(l)
    return "\n".join(out)


def frame_defines(frames, outdir, unit):
    """syntactic write sets of trusted functions -> template defines W_<fn>_<field>
    (the frame part of a trusted contract is derived from the code, not remembered)"""
    ensure_extractor()
    os.makedirs(outdir, exist_ok=True)
    defs, info = set(), {}
    for fr in frames or []:
        req = {"file": os.path.join(REPO, fr["file"]), "items": [{"path": fr["item"], "mode": "sig", "splices": []}]}
        reqpath = os.path.join(outdir, f"{unit}.frame.{fr['name']}.req.json")
        json.dump(req, open(reqpath, "w"))
        r = subprocess.run([EXTRACT_BIN, reqpath], stdout=subprocess.PIPE, stderr=subprocess.PIPE, text=True)
        if r.returncode != 0:
            raise Undecided(f"frame analysis of {fr['item']} failed: {r.stderr.strip()}")
        it = json.loads(r.stdout)["items"][0]
        info[fr["name"]] = {"writes": it["self_writes"], "reads": it["self_reads"], "calls": it["self_calls"]}
        for w in it["self_writes"]:
            defs.add(f"W_{fr['name']}_{w}")
        if it["self_calls"] or "*" in it["self_writes"]:
            defs.add(f"W_{fr['name']}_ANY")
    return defs, info


def generate(unit, template, outdir, canary=False, defines=None, subst=None, frames=None):
    """Build <outdir>/<unit>[_canary].rs.  Returns metadata dict."""
    ensure_extractor()
    os.makedirs(outdir, exist_ok=True)
    defines = set(defines or [])
    fdefs, finfo = frame_defines(frames, outdir, unit)
    defines |= fdefs
    if canary:
        defines.add("CANARY")
    segs = parse_template(template, defines)
    if subst:
        def sub(t):
            for k, v in subst.items():
                t = t.replace(f"@@{k}@@", v)
            return t
        for kind, sg in segs:
            if kind == "text":
                sg[:] = [sub(l) for l in sg]
            else:
                for sp in sg["splices"]:
                    sp["text"] = sub(sp.get("text", ""))
    # group extract requests per file, keep order
    by_file = {}
    for kind, s in segs:
        if kind == "extract":
            by_file.setdefault(s["file"], []).append(s)
    responses = {}
    for f, items in by_file.items():
        req = {"file": os.path.join(REPO, f), "items": []}
        for it in items:
            d = {"path": it["path"], "mode": it["mode"], "splices": [], "keep_docs": it["keep_docs"]}
            for sp in it["splices"]:
                sp = dict(sp)
                if canary:
                    sp["text"] = _activate_canary(sp.get("text", ""))
                d["splices"].append(sp)
            if "expect_sig" in it:
                d["expect_sig"] = it["expect_sig"]

            req["items"].append(d)
        reqpath = os.path.join(outdir, f"{unit}.{hashlib.md5(f.encode()).hexdigest()[:8]}.req.json")
        json.dump(req, open(reqpath, "w"))
        r = subprocess.run([EXTRACT_BIN, reqpath], stdout=subprocess.PIPE, stderr=subprocess.PIPE, text=True)
        if r.returncode != 0:
            raise Undecided(f"extraction of {f} failed: {r.stderr.strip()}")
        resp = json.loads(r.stdout)
        for it, rr in zip(items, resp["items"]):
            responses[id(it)] = rr
    out_lines = []
    blocks = []       # (first_line, last_line, meta)   1-based inclusive unit lines
    for kind, s in segs:
        if kind == "text":
            t = "\n".join(s)
            if canary:
                t = _activate_canary(t)
            out_lines.extend(t.split("\n"))
        else:
            rr = responses[id(s)]
            tl = rr["text"].split("\n")
            first = len(out_lines) + 1
            out_lines.extend(tl)
            blocks.append({
                "first": first, "last": len(out_lines), "file": s["file"], "path": s["path"],
                "mode": s["mode"], "name": s["name"] or s["path"].split("::")[-1].split()[-1],
                "src_line_start": rr["src_line_start"], "src_line_end": rr["src_line_end"],
                "linemap": rr["linemap"], "linelabel": rr["linelabel"],
                "normalisations": rr["normalisations"], "signature": rr["signature"],
                "shape": rr["shape"], "src_hash": rr["src_sha_fnv"],
                "n_splices": len(s["splices"]), "body_hash": rr.get("body_tokens_fnv"),
                "expect_body": s.get("expect_body"),
            })
    path = os.path.join(outdir, f"{unit}{'_canary' if canary else ''}.rs")
    with open(path, "w") as fh:
        fh.write("\n".join(out_lines) + "\n")
    return {"unit": unit, "path": path, "blocks": blocks, "lines": out_lines, "canary": canary, "frames": finfo}


def map_line(meta, line):
    """unit line (1-based) -> (file, src_line or None, block name or None, splice label)"""
    for b in meta["blocks"]:
        if b["first"] <= line <= b["last"]:
            k = line - b["first"]
            src = b["linemap"][k] if k < len(b["linemap"]) else 0
            lab = b["linelabel"][k] if k < len(b["linelabel"]) else ""
            return (b["file"], src or None, b["name"], lab)
    return (None, None, None, "")
