use vstd::prelude::*;
use vstd::std_specs::cmp::*;
verus! {

pub open spec fn in_hd(x: f64, b: bool) -> bool { le_ensures::<f64>(x, 0.0f64, b) }

#[verifier::external_body]
fn hard_decisions<T, F>(llrs: &[T], hard_decision: F) -> (v: Vec<u8>)
where
    T: Copy,
    F: Fn(T) -> bool,
    requires forall|x: T| #[trigger] hard_decision.requires((x,)),
    ensures v.len() == llrs.len(),
        forall|i: int| 0 <= i < llrs.len() ==> hard_decision.ensures((llrs[i],), #[trigger] v[i] == 1u8) && (v[i] == 0u8 || v[i] == 1u8),
{
    unimplemented!()
}

fn top(llrs: &[f64]) -> (v: Vec<u8>)
    ensures v.len() == llrs.len(),
        forall|i: int| 0 <= i < llrs.len() ==> in_hd(llrs[i], #[trigger] v[i] == 1u8),
{
    let input_llrs_hard_decision = |x: f64| -> (b: bool) ensures in_hd(x, b) { x <= 0.0 };
    hard_decisions(llrs, input_llrs_hard_decision)
}

} // verus!
fn main() {}
