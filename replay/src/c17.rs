use ldpc_toolbox::sparse::SparseMatrix;
use std::collections::BTreeSet;

#[derive(Clone, Copy, Debug)]
enum Op {
    Insert(usize, usize),
    Remove(usize, usize),
    Toggle(usize, usize),
    ClearRow(usize),
    ClearCol(usize),
    SetRow(usize, usize), // row, bitmask of columns
    SetCol(usize, usize),
    InsertRow(usize, usize),
    InsertCol(usize, usize),
}

fn bits(mask: usize, n: usize) -> Vec<usize> {
    (0..n).filter(|i| mask >> i & 1 == 1).collect()
}

fn apply_real(h: &mut SparseMatrix, op: Op) {
    let (nr, nc) = (h.num_rows(), h.num_cols());
    match op {
        Op::Insert(r, c) => h.insert(r, c),
        Op::Remove(r, c) => h.remove(r, c),
        Op::Toggle(r, c) => h.toggle(r, c),
        Op::ClearRow(r) => h.clear_row(r),
        Op::ClearCol(c) => h.clear_col(c),
        Op::SetRow(r, m) => h.set_row(r, bits(m, nc).iter()),
        Op::SetCol(c, m) => h.set_col(c, bits(m, nr).iter()),
        Op::InsertRow(r, m) => h.insert_row(r, bits(m, nc).iter()),
        Op::InsertCol(c, m) => h.insert_col(c, bits(m, nr).iter()),
    }
}

fn apply_set(s: &mut BTreeSet<(usize, usize)>, op: Op, nr: usize, nc: usize) {
    match op {
        Op::Insert(r, c) => {
            s.insert((r, c));
        }
        Op::Remove(r, c) => {
            s.remove(&(r, c));
        }
        Op::Toggle(r, c) => {
            if !s.remove(&(r, c)) {
                s.insert((r, c));
            }
        }
        Op::ClearRow(r) => s.retain(|p| p.0 != r),
        Op::ClearCol(c) => s.retain(|p| p.1 != c),
        Op::SetRow(r, m) => {
            s.retain(|p| p.0 != r);
            for c in bits(m, nc) {
                s.insert((r, c));
            }
        }
        Op::SetCol(c, m) => {
            s.retain(|p| p.1 != c);
            for r in bits(m, nr) {
                s.insert((r, c));
            }
        }
        Op::InsertRow(r, m) => {
            for c in bits(m, nc) {
                s.insert((r, c));
            }
        }
        Op::InsertCol(c, m) => {
            for r in bits(m, nr) {
                s.insert((r, c));
            }
        }
    }
}

fn agrees(h: &SparseMatrix, s: &BTreeSet<(usize, usize)>, nr: usize, nc: usize) -> Option<String> {
    if h.num_rows() != nr || h.num_cols() != nc {
        return Some(format!("dimensions {}x{}", h.num_rows(), h.num_cols()));
    }
    for r in 0..nr {
        for c in 0..nc {
            if h.contains(r, c) != s.contains(&(r, c)) {
                return Some(format!("contains({r},{c}) = {}", h.contains(r, c)));
            }
        }
        let mut row: Vec<usize> = h.iter_row(r).copied().collect();
        let w = row.len();
        row.sort_unstable();
        let want: Vec<usize> = (0..nc).filter(|c| s.contains(&(r, *c))).collect();
        if row != want || h.row_weight(r) != w {
            return Some(format!("row {r} iterates {row:?}, weight {}", h.row_weight(r)));
        }
    }
    for c in 0..nc {
        let mut col: Vec<usize> = h.iter_col(c).copied().collect();
        let w = col.len();
        col.sort_unstable();
        let want: Vec<usize> = (0..nr).filter(|r| s.contains(&(*r, c))).collect();
        if col != want || h.col_weight(c) != w {
            return Some(format!("column {c} iterates {col:?}, weight {}", h.col_weight(c)));
        }
    }
    let mut all: Vec<(usize, usize)> = h.iter_all().collect();
    let n = all.len();
    all.sort_unstable();
    all.dedup();
    if n != s.len() || all != s.iter().copied().collect::<Vec<_>>() {
        return Some(format!("iter_all yields {n} entries {all:?}"));
    }
    None
}

pub fn search() -> bool {
    let (nr, nc) = (2usize, 2usize);
    let mut ops = Vec::new();
    for r in 0..nr {
        for c in 0..nc {
            ops.push(Op::Insert(r, c));
            ops.push(Op::Remove(r, c));
            ops.push(Op::Toggle(r, c));
        }
        ops.push(Op::ClearRow(r));
        for m in 0..(1 << nc) {
            ops.push(Op::SetRow(r, m));
            ops.push(Op::InsertRow(r, m));
        }
    }
    for c in 0..nc {
        ops.push(Op::ClearCol(c));
        for m in 0..(1 << nr) {
            ops.push(Op::SetCol(c, m));
            ops.push(Op::InsertCol(c, m));
        }
    }
    // all histories of length <= 3 over these operations
    let n = ops.len();
    for len in 1..=3usize {
        let total = n.pow(len as u32);
        for code in 0..total {
            let mut seq = Vec::new();
            let mut x = code;
            for _ in 0..len {
                seq.push(ops[x % n]);
                x /= n;
            }
            let mut h = SparseMatrix::new(nr, nc);
            let mut s = BTreeSet::new();
            for (i, op) in seq.iter().enumerate() {
                let before = h.clone();
                let present = match op {
                    Op::Insert(r, c) | Op::Remove(r, c) => Some(s.contains(&(*r, *c))),
                    _ => None,
                };
                apply_real(&mut h, *op);
                apply_set(&mut s, *op, nr, nc);
                if let Some(bad) = agrees(&h, &s, nr, nc) {
                    crate::report(&format!("SparseMatrix::new({nr},{nc}) then {:?}", &seq[..=i]), &bad, &format!("the set {s:?}"));
                    return true;
                }
                let idem = match (op, present) {
                    (Op::Insert(..), Some(true)) | (Op::Remove(..), Some(false)) => h == before,
                    _ => true,
                };
                if !idem {
                    crate::report(&format!("SparseMatrix::new({nr},{nc}) then {:?}", &seq[..=i]), "matrix != matrix before the no-op", "equal");
                    return true;
                }
            }
        }
    }
    false
}
