import argparse, json, os, re, subprocess, sys, time, hashlib
import unitgen, verusrun
from unitgen import Undecided, VERIF, REPO, WORK
from props import PROPS

KNOWN = os.path.join(VERIF, "known-findings.txt")
REPLAY_OUT = os.environ.get("VERIF_REPLAY_OUT") or os.path.join(VERIF, "replay", "out")


def load_known():
    """lines:  known: property=C10 obligation="<prefix>" :: text
               fixed: property=C06 <commit> <what failed>        (suppresses nothing)"""
    out = []
    if not os.path.exists(KNOWN):
        return out
    for line in open(KNOWN):
        line = line.strip()
        if not line.startswith("known:"):
            continue
        m = re.match(r'known:\s+property=(\S+)\s+obligation="([^"]*)"\s*(?:witness="([^"]*)")?\s*::\s*(.*)', line)
        if m:
            out.append({"property": m.group(1), "obligation": m.group(2), "witness": m.group(3) or "", "text": m.group(4)})
    return out


def file_hash(path):
    try:
        return hashlib.sha256(open(path, "rb").read()).hexdigest()[:16]
    except Exception:
        return None


def scan_trusted(text):
    """mechanical scan of a generated unit / harness for assumption constructs"""
    pats = ["external_body", "assume_specification", "admit(", "assume(", "kani::stub", "kani::assume",
            "external_fn_specification", "#[verifier::external", "axiom", "uninterp"]
    found = {}
    for p in pats:
        n = text.count(p)
        if n:
            found[p] = n
    return found


def run_verus_unit(pid, u, tier, log):
    """returns dict with status, failures, evidence pieces"""
    outdir = os.path.join(WORK, "units", pid, u["unit"])
    tpl = os.path.join(VERIF, "specs", u["template"])
    defines = set(u.get("defines", []))
    if tier == "thorough":
        defines.add("THOROUGH")
    meta = unitgen.generate(u["unit"], tpl, outdir, canary=False, defines=defines, subst=u.get("subst"), frames=u.get("frames"))
    rl = u.get("rlimit_thorough", u.get("rlimit", 50)) if tier == "thorough" else u.get("rlimit", 50)
    res = verusrun.run_unit(meta, rlimit=rl, extra=u.get("extra"), timeout=u.get("timeout", 1800), threads=u.get("threads", 4))
    res["meta"] = meta
    res["unit"] = u["unit"]
    log(f"[verus] unit {u['unit']}: {res['status']} verified={res['verified']} errors={res['errors']} "
        f"smt={res['smt_ms']}ms wall={res['wall_s']:.1f}s")
    if res["status"] == "verified":
        # vacuity guard (a): every extracted, non-trusted function must have been verified
        names = [f["name"] for f in res["functions"] if f["success"]]
        for b in meta["blocks"]:
            if b["mode"] != "verbatim" or not re.match(r"(impl|fn|trait .*::)", b["path"]):
                continue
            if re.match(r"impl [^:]*$", b["path"]):
                continue
            nm = b["path"].split("::")[-1].split()[-1]
            if not any(n.split("::")[-1] == nm for n in names):
                # functions without any SMT query do not show up; accept only if they have no contract
                if b["n_splices"] > 0:
                    res["status"] = "undecided"
                    res["reason"] = f"vacuity guard: no verification result for contracted function {b['path']}"
        # trusted-base guard: a trusted (external_body) function whose body is no longer the one its
        # assumed contract was validated against makes the result undecided (soft pin: a failing
        # obligation is still reported as a violation, see above)
        for b in meta["blocks"]:
            if b.get("expect_body") and b.get("body_hash") and b["expect_body"] != b["body_hash"] and res["status"] == "verified":
                res["status"] = "undecided"
                res["reason"] = (f"trusted-base guard: the body of {b['path']} ({b['file']}) changed (token hash {b['body_hash']}, "
                                 f"contract validated against {b['expect_body']}); its assumed contract is no longer justified")
        # vacuity guard (b): canary copy must fail, and only in canary-carrying functions
        if u.get("canary") and res["status"] == "verified":
            cmeta = unitgen.generate(u["unit"], tpl, outdir, canary=True, defines=defines, subst=u.get("subst"), frames=u.get("frames"))
            cres = verusrun.run_unit(cmeta, rlimit=rl, extra=u.get("extra"), timeout=u.get("timeout", 1800), threads=u.get("threads", 4))
            nfail = len([f for f in cres["failures"] if not f.get("undecided")])
            res["canary"] = {"status": cres["status"], "failed_obligations": [f["obligation"] for f in cres["failures"]][:10]}
            log(f"[verus] canary of {u['unit']}: {cres['status']} ({nfail} failing obligations, expected >= 1)")
            if cres["status"] != "failed" or nfail == 0:
                res["status"] = "undecided"
                res["reason"] = f"vacuity guard: canary unit did not fail ({cres['status']}: {cres.get('reason', '')[:300]})"
    return res


def write_replay(pid, failure, witness, tier):
    os.makedirs(REPLAY_OUT, exist_ok=True)
    h = hashlib.md5(failure["obligation"].encode()).hexdigest()[:8]
    path = os.path.join(REPLAY_OUT, f"{pid}-{h}.json")
    json.dump({"property": pid, "tier": tier, "obligation": failure["obligation"], "engine": failure.get("engine", "verus"),
               "message": failure.get("message"), "repo_file": failure.get("file"), "repo_line": failure.get("src_line"),
               "verifier_output": failure.get("rendered"), "witness": witness,
               "note": ("failing input found by directed witness search on the real code" if witness and witness.get("found")
                        else "no-failing-input-found: the verifier gives no counterexample; obligation, verifier output and source location attached")},
              open(path, "w"), indent=1)
    return path


def witness_search(pid, failure, log):
    """directed witness search on the real code (never decides anything)"""
    cfg = PROPS[pid]
    w = cfg.get("witness")
    if not w:
        return None
    try:
        import witness
        return witness.search(pid, w, failure, log)
    except Exception as e:  # the search is best-effort
        log(f"[witness] search unavailable: {e}")
        return None


def main(argv):
    ap = argparse.ArgumentParser()
    ap.add_argument("pid")
    ap.add_argument("--tier", default=os.environ.get("VERIF_TIER", "quick"))
    ap.add_argument("--replay", default=None)
    a = ap.parse_args(argv)
    pid, tier = a.pid, a.tier
    if tier not in ("quick", "thorough"):
        tier = "quick"
    seed = int(os.environ.get("VERIF_SEED", "0") or 0)
    if a.replay:
        print(open(a.replay).read())
        return 0
    if pid not in PROPS:
        print(f"property {pid} is not claimed (see MANIFEST.json not_applicable)")
        return 2
    cfg = PROPS[pid]
    t0 = time.time()
    lines = []

    def log(s):
        print(s, flush=True)
        lines.append(s)

    failures, undecided = [], []
    verus_results, kani_results = [], []
    try:
        from concurrent.futures import ThreadPoolExecutor
        units = [u for u in cfg.get("verus", []) if not (u.get("tier") == "thorough" and tier != "thorough")]

        def job(u):
            try:
                return run_verus_unit(pid, u, tier, log)
            except Undecided as e:
                return {"status": "undecided", "reason": str(e), "unit": u["unit"], "verified": 0, "errors": 0,
                        "failures": [], "functions": [], "smt_ms": 0, "wall_s": 0, "cmd": ""}

        with ThreadPoolExecutor(max_workers=int(os.environ.get("VERIF_JOBS", "8"))) as ex:
            results = list(ex.map(job, units))
        for u, r in zip(units, results):
            verus_results.append(r)
            if r["status"] == "undecided":
                undecided.append(f"verus unit {u['unit']}: {r.get('reason', '')}")
            elif r["status"] == "failed":
                for f in r["failures"]:
                    f["engine"] = "verus"
                    failures.append(f)
        ks = cfg.get("kani", {}).get(tier) or []
        if ks:
            import kanirun
            kr = kanirun.run_harnesses(pid, ks, tier, log)
            kani_results = kr
            for h in kr:
                if h["status"] == "undecided":
                    undecided.append(f"kani harness {h['harness']}: {h.get('reason', '')}")
                elif h["status"] == "failed":
                    failures.append({"engine": "kani", "obligation": f"kani/{h['harness']}/{h.get('failed_check', 'check')}",
                                     "message": h.get("failed_desc", ""), "rendered": h.get("tail", ""),
                                     "file": None, "src_line": None, "kani": h})
    except Undecided as e:
        undecided.append(str(e))

    known = [k for k in load_known() if k["property"] == pid]
    violations, known_hits = [], []
    for f in failures:
        hit = next((k for k in known if f["obligation"].startswith(k["obligation"])), None)
        if hit:
            known_hits.append((f, hit))
        else:
            violations.append(f)

    rc = 0
    for f, k in known_hits:
        log(f"KNOWN-FINDING: property={pid} {k['text']} [{f['obligation']}]")
    replay_paths = []
    for f in violations:
        wit = None
        if f["engine"] == "kani":
            wit = f["kani"].get("witness")
        else:
            wit = witness_search(pid, f, log)
        path = write_replay(pid, f, wit, tier)
        replay_paths.append(path)
        loc = f" at {f['file']}:{f['src_line']}" if f.get("file") and f.get("src_line") else ""
        log(f"FAILED OBLIGATION {f['obligation']}{loc} ({f.get('message', '')})")
        tail = "" if (wit and wit.get("found")) else " no-failing-input-found"
        log(f"VIOLATION property={pid} replay={path}{tail}")
        rc = 1
    if rc == 0 and undecided:
        for u in undecided:
            log(f"UNDECIDED property={pid}: {u}")
        rc = 2

    write_evidence(pid, cfg, tier, seed, verus_results, kani_results, violations, known_hits, undecided, time.time() - t0)
    if rc == 0:
        log(f"OK property={pid} tier={tier}: all obligations discharged "
            f"({sum(r['verified'] for r in verus_results)} Verus functions, "
            f"{sum(1 for h in kani_results if h['status'] == 'verified')} Kani harnesses) in {time.time() - t0:.1f}s")
    return rc


def write_evidence(pid, cfg, tier, seed, vres, kres, violations, known_hits, undecided, wall):
    evdir = os.environ.get("VERIF_EVIDENCE_DIR") or os.path.join(VERIF, "evidence")
    os.makedirs(evdir, exist_ok=True)
    fns_contract, fns_trusted, norms, samples, trusted_scan = [], [], [], [], {}
    seen_items = {}
    obligations = discharged = 0
    smt_ms = 0
    cmds = []
    for r in vres:
        meta = r.get("meta")
        cmds.append(r.get("cmd", ""))
        smt_ms += r.get("smt_ms", 0)
        nf = len([f for f in r["failures"] if not f.get("undecided")])
        obligations += r["verified"] + max(r["errors"], nf)
        discharged += r["verified"]
        if meta:
            text = "\n".join(meta["lines"])
            for k, v in scan_trusted(text).items():
                trusted_scan[f"{r['unit']}:{k}"] = v
            for b in meta["blocks"]:
                ent = {"item": b["path"], "file": os.path.join(REPO, b["file"]), "lines": [b["src_line_start"], b["src_line_end"]],
                       "content_fnv64": b["src_hash"], "unit": r["unit"]}
                key = (b["path"], b["file"], b["mode"])
                if key in seen_items:
                    seen_items[key]["units"].append(r["unit"])
                    continue
                ent["units"] = [r["unit"]]
                seen_items[key] = ent
                if b["mode"] == "trusted":
                    fns_trusted.append(ent)
                else:
                    fns_contract.append(ent)
                for n in b["normalisations"]:
                    if f"{b['path']}: {n}" not in norms:
                        norms.append(f"{b['path']}: {n}")
        for f in r["functions"][:400]:
            if f["success"] and len(samples) < 12 and f["mode"] == "exec":
                samples.append({"obligation": f"{r['unit']}/{f['name']} (all VCs of this function)", "back_end": "verus/z3",
                                "smt_us": f["time_us"], "rlimit": f["rlimit"]})
    kani_ok = 0
    kani_solver_s = 0.0
    bounded = []
    for h in kres:
        obligations += 1
        if h["status"] == "verified":
            discharged += 1
            kani_ok += 1
        kani_solver_s += h.get("wall_s", 0)
        if h.get("bound"):
            bounded.append(f"{h['harness']}: {h['bound']}")
        if len(samples) < 24:
            samples.append({"obligation": f"kani/{h['harness']}", "back_end": "kani/cbmc", "status": h["status"],
                            "checks": h.get("checks"), "covers": h.get("covers"), "wall_s": round(h.get("wall_s", 0), 1),
                            "complete_or_bounded": h.get("bound") or "complete for its stated domain"})
        cmds.append(h.get("cmd", ""))
        for k, v in (h.get("stubs") or {}).items():
            trusted_scan[f"kani:{h['harness']}:{k}"] = v
    for f in violations[:6]:
        samples.append({"FAILED": f["obligation"], "message": f.get("message")})
    level = cfg["level"]
    cov = {
        "obligations": obligations,
        "discharged": discharged,
        "checker_cmd": " ; ".join(c for c in cmds[:6] if c) + (" ; ..." if len(cmds) > 6 else ""),
        "trusted_base": cfg.get("assumptions", []),
        "samples": samples or [{"note": "no obligation was generated (undecided)"}],
        "explanation": cfg.get("explanation", {}).get(tier, cfg.get("explanation_all", "")) or
            "contract-based deductive verification: Verus on text extracted from /repo on this run; Kani on the compiled crate",
        "functions_under_contract": fns_contract,
        "functions_trusted": fns_trusted,
        "normalisations_applied": norms,
        "extraction_drops": "items not listed in the unit template; #[cfg(test)] modules; doc comments; bodies of functions marked trusted (external_body); non-std derives and attributes (N4)",
        "back_ends": {"verus_z3_functions_verified": sum(r["verified"] for r in vres), "verus_smt_ms": smt_ms,
                      "kani_cbmc_harnesses_successful": kani_ok, "kani_wall_s_sum": round(kani_solver_s, 1)},
        "bounded_harnesses": bounded,
        "assumption_scan": trusted_scan,
        "canaries": {r["unit"]: r.get("canary") for r in vres if r.get("canary")},
        "known_findings_matched": [k["text"] for _, k in known_hits],
        "undecided": undecided,
        "exhaustive": False,
    }
    ev = {"property_id": pid, "tier": tier, "seed": seed, "level": level, "coverage": cov,
          "assumptions": cfg.get("assumptions", []), "wall_s": round(wall, 2), "violations": len(violations)}
    json.dump(ev, open(os.path.join(evdir, f"{pid}.json"), "w"), indent=1)
