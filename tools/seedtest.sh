#!/bin/sh
# usage: tools/seedtest.sh <PROPERTY> <patch.diff> [tier]
# Self-validation helper: applies a seeded change to a scratch copy of /repo (outside /repo and
# /verif), runs ./check against that copy with separate work / evidence / replay directories, and
# removes the copy.  The registered checks themselves always run against /repo.
set -e
P=$1; D=$2; T=${3:-quick}
S=$(mktemp -d /tmp/seed.XXXXXX)
rsync -a --exclude target --exclude .git /repo/ $S/repo/
( cd $S/repo && git init -q . && git add -A >/dev/null 2>&1 && git -c user.name=x -c user.email=x@x commit -qm base && git apply --whitespace=nowarn "$D" )
rc=0
VERIF_REPO=$S/repo VERIF_WORK=$S/work VERIF_EVIDENCE_DIR=$S/evidence VERIF_REPLAY_OUT=$S/replay /verif/check $P --tier $T || rc=$?
mkdir -p /verif/.work/seedruns && cp -r $S/replay /verif/.work/seedruns/$(basename $S) 2>/dev/null || true
echo "seedtest rc=$rc"
rm -rf $S
exit $rc
