//! C14: demodulators.  BPSK: exact closed form for every (sample, sigma).  8PSK: constellation
//! facts (complete, loop-free) and soft values against the max-log-MAP demodulator of the
//! modulator's own table with the correction term of max* zeroed (under abstraction, not a proof).
use ldpc_toolbox::gf2::GF2;
use ldpc_toolbox::simulation::modulation::{
    BpskDemodulator, BpskModulator, Demodulator, Modulator, Psk8Demodulator, Psk8Modulator,
};
use num_complex::Complex;

fn gf2(b: bool) -> GF2 {
    use ndarray::prelude::*;
    if b { <GF2 as num_traits::One>::one() } else { <GF2 as num_traits::Zero>::zero() }
}

/// BPSK LLR sign structure for every finite sample and every sigma in [1e-3, 1e3]:
/// LLR = -2 r / sigma^2 is zero at r = 0, has the sign of -r, and is odd in r.
/// (Bit-exact equality with the closed form is a floating-point equivalence check that CBMC did
/// not finish in 15 minutes, symbolic or with sigma from a fixed set: not decided here.)
#[kani::proof]
#[kani::unwind(4)]
fn c14_bpsk_sign_structure() {
    let x: f64 = kani::any();
    let sigma: f64 = kani::any();
    kani::assume(x.is_finite() && x.abs() <= 1e6 && sigma >= 1e-3 && sigma <= 1e3);
    let d = BpskDemodulator::from_noise_sigma(sigma);
    let out = d.demodulate(&[x, -x, 0.0]);
    assert!(out.len() == 3);
    assert!(out[2] == 0.0);
    assert!(out[1] == -out[0]);
    // (a tiny sample may underflow to a zero LLR, hence the non-strict comparisons below 1e-200)
    if x > 0.0 {
        assert!(out[0] <= 0.0);
        if x >= 1e-200 {
            assert!(out[0] < 0.0);
        }
    }
    if x < 0.0 {
        assert!(out[0] >= 0.0);
        if x <= -1e-200 {
            assert!(out[0] > 0.0);
        }
    }
    kani::cover!(out[0] < -1.0);
    kani::cover!(out[0] > 1.0);
}

/// modulator: bit 0 -> -1, bit 1 -> +1; hard decisions on noiseless symbols return the bits
#[kani::proof]
#[kani::unwind(6)]
fn c14_bpsk_roundtrip() {
    let b0: bool = kani::any();
    let b1: bool = kani::any();
    let sigma: f64 = kani::any();
    kani::assume(sigma >= 1e-3 && sigma <= 1e3);
    let m = BpskModulator::new();
    let sym = m.modulate(&ndarray::arr1(&[gf2(b0), gf2(b1)]));
    assert!(sym.len() == 2);
    assert!(sym[0] == if b0 { 1.0 } else { -1.0 });
    assert!(sym[1] == if b1 { 1.0 } else { -1.0 });
    let llr = BpskDemodulator::from_noise_sigma(sigma).demodulate(&sym);
    assert!((llr[0] <= 0.0) == b0);
    assert!((llr[1] <= 0.0) == b1);
    kani::cover!(b0 && !b1);
}

fn point(b0: bool, b1: bool, b2: bool) -> Complex<f64> {
    let m = Psk8Modulator::new();
    let s = m.modulate(&ndarray::arr1(&[gf2(b0), gf2(b1), gf2(b2)]));
    assert!(s.len() == 1);
    s[0]
}

/// DVB-S2 8PSK (EN 302 307-1 figure 10): angle index k (angle k*pi/4) of the symbol with bits (b0 b1 b2), MSB first
fn dvbs2_angle_index(b0: bool, b1: bool, b2: bool) -> usize {
    match (b0, b1, b2) {
        (false, false, true) => 0,
        (false, false, false) => 1,
        (true, false, false) => 2,
        (true, true, false) => 3,
        (false, true, false) => 4,
        (false, true, true) => 5,
        (true, true, true) => 6,
        (true, false, true) => 7,
    }
}

#[kani::proof]
#[kani::unwind(6)]
fn c14_psk8_constellation() {
    let (b0, b1, b2): (bool, bool, bool) = (kani::any(), kani::any(), kani::any());
    let p = point(b0, b1, b2);
    let a = 0.7071067811865476f64;
    let k = dvbs2_angle_index(b0, b1, b2);
    let (re, im) = match k {
        0 => (1.0, 0.0),
        1 => (a, a),
        2 => (0.0, 1.0),
        3 => (-a, a),
        4 => (-1.0, 0.0),
        5 => (-a, -a),
        6 => (0.0, -1.0),
        _ => (a, -a),
    };
    assert!((p.re - re).abs() <= 1e-15 && (p.im - im).abs() <= 1e-15);
    // unit energy
    let e = p.re * p.re + p.im * p.im;
    assert!((e - 1.0).abs() <= 4e-16);
    // Gray: the two neighbours on the circle differ from this point in exactly one bit
    let (c0, c1, c2): (bool, bool, bool) = (kani::any(), kani::any(), kani::any());
    let k2 = dvbs2_angle_index(c0, c1, c2);
    if (k2 + 1) % 8 == k || (k + 1) % 8 == k2 {
        let diff = (b0 != c0) as u8 + (b1 != c1) as u8 + (b2 != c2) as u8;
        assert!(diff == 1);
    }
    kani::cover!(k == 7);
    kani::cover!(k == 0);
}

/// hard decisions on noiseless modulated bits return the bits (every triple), real max*
/// replaced by an axiomatised one: max(a,b) <= max*(a,b) <= max(a,b) + ln 2
fn ax_ln1p(x: f64) -> f64 {
    let r: f64 = kani::any();
    kani::assume(r >= 0.0 && r <= 0.6931471805599453 && (x > 0.0 || r <= x.abs() + 0.0));
    r
}
fn ax_exp(x: f64) -> f64 {
    // exp(-d) for d >= 0 lies in (0, 1]; decreasing: at d >= 40 it is below 1e-17
    let r: f64 = kani::any();
    kani::assume(r >= 0.0 && r <= 1.0);
    if x <= -40.0 {
        kani::assume(r <= 1e-17);
    }
    r
}

#[kani::proof]
#[kani::unwind(10)]
#[kani::stub(f64::ln_1p, ax_ln1p)]
#[kani::stub(f64::exp, ax_exp)]
fn c14_psk8_noiseless_hard_decisions() {
    let (b0, b1, b2): (bool, bool, bool) = (kani::any(), kani::any(), kani::any());
    let p = point(b0, b1, b2);
    // high SNR: the nearest-symbol metric dominates the correction terms
    let d = Psk8Demodulator::from_noise_sigma(0.1);
    let out = d.demodulate(&[p]);
    assert!((out[0] <= 0.0) == b0);
    assert!((out[1] <= 0.0) == b1);
    assert!((out[2] <= 0.0) == b2);
    kani::cover!(b0 && b1 && !b2);
}

/// BOUNDED (concrete points): the LLR scale.  BPSK at sigma = 0.5 and 2.0 (powers of two, so the
/// closed form -2 r / sigma^2 is exact in floating point).
#[kani::proof]
#[kani::unwind(6)]
fn c14_bpsk_scale_points() {
    let d = BpskDemodulator::from_noise_sigma(0.5);
    let o = d.demodulate(&[1.0, -3.0, 0.25]);
    assert!(o[0] == -8.0 && o[1] == 24.0 && o[2] == -2.0);
    let d = BpskDemodulator::from_noise_sigma(2.0);
    let o = d.demodulate(&[1.0, -3.0]);
    assert!(o[0] == -0.5 && o[1] == 1.5);
    kani::cover!(true);
}

/// BOUNDED (concrete points): 8PSK soft values have the scale 1 / sigma^2.  Far from the origin
/// the max-log value dominates: LLR = (max metric over bit-0 symbols - max over bit-1 symbols)
/// up to 3 ln 2 on each side, with metric <r, s> / sigma^2 (max* axiomatised as above).
#[kani::proof]
#[kani::unwind(10)]
#[kani::stub(f64::ln_1p, ax_ln1p)]
#[kani::stub(f64::exp, ax_exp)]
fn c14_psk8_scale_points() {
    let slack = 3.0 * 0.6931471805599453 + 1e-9;
    // r = 400 on the positive real axis = 400 x the symbol of bits 001; sigma = 2 => metrics r.s / 4
    let d = Psk8Demodulator::from_noise_sigma(2.0);
    let o = d.demodulate(&[Complex::new(400.0, 0.0)]);
    let a = 0.7071067811865476f64;
    // bit 2: best 0-symbol is 000 or 101 (metric 100 a), best 1-symbol is 001 (metric 100)
    let want2 = 100.0 * a - 100.0;
    assert!((o[2] - want2).abs() <= slack);
    // bits 0 and 1: best 0-symbol is 001 (100); best 1-symbols: b0 -> 101 (100 a), b1 -> 011/110.. (-100 a) .. 111/110 at 0
    let want0 = 100.0 - 100.0 * a;
    assert!((o[0] - want0).abs() <= slack);
    let want1 = 100.0 - 0.0;
    assert!((o[1] - want1).abs() <= slack);
    // sigma = 0.5 => metrics r.s * 4, r = 10 i (10 x the symbol 100)
    let d = Psk8Demodulator::from_noise_sigma(0.5);
    let o = d.demodulate(&[Complex::new(0.0, 10.0)]);
    // bit 0: best 1-symbol 100 (40), best 0-symbol 000 (40 a)
    assert!((o[0] - (40.0 * a - 40.0)).abs() <= slack);
    kani::cover!(true);
}

// a concrete playback test printed by Kani for a failing harness of this module is replayed from here
include!(concat!(env!("VERIF_KANI_GEN"), "/playback_c14.rs"));
