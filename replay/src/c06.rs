use ldpc_toolbox::codes::dvbs2::Code;

/// (code, n, k, q) from EN 302 307-1 Tables 5a/5b/7a/7b
fn table() -> Vec<(Code, &'static str, usize, usize, usize)> {
    use Code::*;
    vec![
        (R1_4, "R1_4", 64800, 16200, 135), (R1_3, "R1_3", 64800, 21600, 120), (R2_5, "R2_5", 64800, 25920, 108),
        (R1_2, "R1_2", 64800, 32400, 90), (R3_5, "R3_5", 64800, 38880, 72), (R2_3, "R2_3", 64800, 43200, 60),
        (R3_4, "R3_4", 64800, 48600, 45), (R4_5, "R4_5", 64800, 51840, 36), (R5_6, "R5_6", 64800, 54000, 30),
        (R8_9, "R8_9", 64800, 57600, 20), (R9_10, "R9_10", 64800, 58320, 18),
        (R1_4short, "R1_4short", 16200, 3240, 36), (R1_3short, "R1_3short", 16200, 5400, 30),
        (R2_5short, "R2_5short", 16200, 6480, 27), (R1_2short, "R1_2short", 16200, 7200, 25),
        (R3_5short, "R3_5short", 16200, 9720, 18), (R2_3short, "R2_3short", 16200, 10800, 15),
        (R3_4short, "R3_4short", 16200, 11880, 12), (R4_5short, "R4_5short", 16200, 12600, 10),
        (R5_6short, "R5_6short", 16200, 13320, 8), (R8_9short, "R8_9short", 16200, 14400, 5),
    ]
}

pub fn search() -> bool {
    let mut found = false;
    for (code, name, n, k, q) in table() {
        let h = match std::panic::catch_unwind(|| code.h()) {
            Ok(h) => h,
            Err(_) => {
                crate::report(&format!("Code::{name}.h()"), "panic", "a matrix");
                found = true;
                continue;
            }
        };
        let m = n - k;
        if h.num_rows() != m || h.num_cols() != n {
            crate::report(
                &format!("Code::{name}.h()"),
                &format!("{} x {} (k = {})", h.num_rows(), h.num_cols(), h.num_cols() as i64 - h.num_rows() as i64),
                &format!("{m} x {n} (k = {k})"),
            );
            found = true;
            continue;
        }
        // dual-diagonal parity part
        for j in 0..m {
            let mut want = vec![j];
            if j + 1 < m {
                want.push(j + 1);
            }
            let mut got: Vec<usize> = h.iter_col(k + j).copied().collect();
            got.sort_unstable();
            if got != want {
                crate::report(&format!("Code::{name}.h() column {}", k + j), &format!("{got:?}"), &format!("{want:?}"));
                found = true;
                break;
            }
        }
        // quasi-cyclic law inside each 360-column group
        'g: for g in 0..k / 360 {
            for w in 1..360 {
                let mut prev: Vec<usize> = h.iter_col(360 * g + w - 1).map(|x| (x + q) % m).collect();
                let mut cur: Vec<usize> = h.iter_col(360 * g + w).copied().collect();
                prev.sort_unstable();
                cur.sort_unstable();
                if prev != cur {
                    crate::report(
                        &format!("Code::{name}.h() columns {} and {}", 360 * g + w - 1, 360 * g + w),
                        &format!("{cur:?}"),
                        &format!("previous column shifted by q={q} mod {m}: {prev:?}"),
                    );
                    found = true;
                    break 'g;
                }
            }
        }
    }
    found
}
