// C10: scratch state inside the 8-bit arithmetic objects (`_minstars`): a rule called on a used
// object (after a call with a larger degree) behaves exactly like on a fresh object.  Complete for
// every message / variable value in range at degrees 3 then 2.
fn scratch8<A>(mut used: A, mut fresh: A)
where
    A: DecoderArithmetic<Llr = i8, CheckMessage = i8, VarMessage = i8, VarLlr = i16>,
{
    // layered update with three neighbours, then with two
    let mut m3 = [SentMessage { dest: 0usize, value: 0i8 }; 3];
    let mut v3 = [0i16; 3];
    for k in 0..3 {
        let x: i8 = kani::any();
        let y: i16 = kani::any();
        kani::assume(x >= -127 && y >= -508 && y <= 508);
        m3[k] = SentMessage { dest: k, value: x };
        v3[k] = y;
    }
    used.update_check_messages_and_vars(&mut m3, &mut v3);
    let mut c3 = [Message { source: 0usize, value: 0i8 }; 3];
    for k in 0..3 {
        let x: i8 = kani::any();
        kani::assume(x >= -127);
        c3[k] = Message { source: k, value: x };
    }
    used.send_check_messages(&c3, |_m| {});
    let mut ma = [SentMessage { dest: 0usize, value: 0i8 }; 2];
    let mut va = [0i16; 2];
    for k in 0..2 {
        let x: i8 = kani::any();
        let y: i16 = kani::any();
        kani::assume(x >= -127 && y >= -508 && y <= 508);
        ma[k] = SentMessage { dest: k, value: x };
        va[k] = y;
    }
    let mut mb = ma;
    let mut vb = va;
    used.update_check_messages_and_vars(&mut ma, &mut va);
    fresh.update_check_messages_and_vars(&mut mb, &mut vb);
    for k in 0..2 {
        assert!(ma[k].value == mb[k].value && ma[k].dest == mb[k].dest);
        assert!(va[k] == vb[k]);
    }
    // flooding check rule with two neighbours
    let mut c2 = [Message { source: 0usize, value: 0i8 }; 2];
    for k in 0..2 {
        let x: i8 = kani::any();
        kani::assume(x >= -127);
        c2[k] = Message { source: k, value: x };
    }
    let mut o1 = [0i8; 2];
    let mut o2 = [0i8; 2];
    used.send_check_messages(&c2, |m: SentMessage<i8>| {
        if m.dest < 2 {
            o1[m.dest] = m.value;
        }
    });
    fresh.send_check_messages(&c2, |m: SentMessage<i8>| {
        if m.dest < 2 {
            o2[m.dest] = m.value;
        }
    });
    assert!(o1[0] == o2[0] && o1[1] == o2[1]);
    kani::cover!(vb[0] != va[0] || true);
    kani::cover!(o2[0] > 0);
}
#[kani::proof]
#[kani::unwind(5)]
fn c10_scratch8__Minstarapproxi8() {
    scratch8::<Minstarapproxi8>(<Minstarapproxi8>::verif_with_table(spec_table()), <Minstarapproxi8>::verif_with_table(spec_table()));
}
#[kani::proof]
#[kani::unwind(5)]
fn c10_scratch8__Minstarapproxi8Jones() {
    scratch8::<Minstarapproxi8Jones>(<Minstarapproxi8Jones>::verif_with_table(spec_table()), <Minstarapproxi8Jones>::verif_with_table(spec_table()));
}
#[kani::proof]
#[kani::unwind(5)]
fn c10_scratch8__Minstarapproxi8PartialHardLimit() {
    scratch8::<Minstarapproxi8PartialHardLimit>(<Minstarapproxi8PartialHardLimit>::verif_with_table(spec_table()), <Minstarapproxi8PartialHardLimit>::verif_with_table(spec_table()));
}
#[kani::proof]
#[kani::unwind(5)]
fn c10_scratch8__Minstarapproxi8JonesPartialHardLimit() {
    scratch8::<Minstarapproxi8JonesPartialHardLimit>(<Minstarapproxi8JonesPartialHardLimit>::verif_with_table(spec_table()), <Minstarapproxi8JonesPartialHardLimit>::verif_with_table(spec_table()));
}
#[kani::proof]
#[kani::unwind(5)]
fn c10_scratch8__Minstarapproxi8Deg1Clip() {
    scratch8::<Minstarapproxi8Deg1Clip>(<Minstarapproxi8Deg1Clip>::verif_with_table(spec_table()), <Minstarapproxi8Deg1Clip>::verif_with_table(spec_table()));
}
#[kani::proof]
#[kani::unwind(5)]
fn c10_scratch8__Minstarapproxi8JonesDeg1Clip() {
    scratch8::<Minstarapproxi8JonesDeg1Clip>(<Minstarapproxi8JonesDeg1Clip>::verif_with_table(spec_table()), <Minstarapproxi8JonesDeg1Clip>::verif_with_table(spec_table()));
}
#[kani::proof]
#[kani::unwind(5)]
fn c10_scratch8__Minstarapproxi8PartialHardLimitDeg1Clip() {
    scratch8::<Minstarapproxi8PartialHardLimitDeg1Clip>(<Minstarapproxi8PartialHardLimitDeg1Clip>::verif_with_table(spec_table()), <Minstarapproxi8PartialHardLimitDeg1Clip>::verif_with_table(spec_table()));
}
#[kani::proof]
#[kani::unwind(5)]
fn c10_scratch8__Minstarapproxi8JonesPartialHardLimitDeg1Clip() {
    scratch8::<Minstarapproxi8JonesPartialHardLimitDeg1Clip>(<Minstarapproxi8JonesPartialHardLimitDeg1Clip>::verif_with_table(spec_table()), <Minstarapproxi8JonesPartialHardLimitDeg1Clip>::verif_with_table(spec_table()));
}
#[kani::proof]
#[kani::unwind(5)]
fn c10_scratch8__Aminstari8() {
    scratch8::<Aminstari8>(<Aminstari8>::verif_with_table(spec_table()), <Aminstari8>::verif_with_table(spec_table()));
}
#[kani::proof]
#[kani::unwind(5)]
fn c10_scratch8__Aminstari8Jones() {
    scratch8::<Aminstari8Jones>(<Aminstari8Jones>::verif_with_table(spec_table()), <Aminstari8Jones>::verif_with_table(spec_table()));
}
#[kani::proof]
#[kani::unwind(5)]
fn c10_scratch8__Aminstari8PartialHardLimit() {
    scratch8::<Aminstari8PartialHardLimit>(<Aminstari8PartialHardLimit>::verif_with_table(spec_table()), <Aminstari8PartialHardLimit>::verif_with_table(spec_table()));
}
#[kani::proof]
#[kani::unwind(5)]
fn c10_scratch8__Aminstari8JonesPartialHardLimit() {
    scratch8::<Aminstari8JonesPartialHardLimit>(<Aminstari8JonesPartialHardLimit>::verif_with_table(spec_table()), <Aminstari8JonesPartialHardLimit>::verif_with_table(spec_table()));
}
#[kani::proof]
#[kani::unwind(5)]
fn c10_scratch8__Aminstari8Deg1Clip() {
    scratch8::<Aminstari8Deg1Clip>(<Aminstari8Deg1Clip>::verif_with_table(spec_table()), <Aminstari8Deg1Clip>::verif_with_table(spec_table()));
}
#[kani::proof]
#[kani::unwind(5)]
fn c10_scratch8__Aminstari8JonesDeg1Clip() {
    scratch8::<Aminstari8JonesDeg1Clip>(<Aminstari8JonesDeg1Clip>::verif_with_table(spec_table()), <Aminstari8JonesDeg1Clip>::verif_with_table(spec_table()));
}
#[kani::proof]
#[kani::unwind(5)]
fn c10_scratch8__Aminstari8PartialHardLimitDeg1Clip() {
    scratch8::<Aminstari8PartialHardLimitDeg1Clip>(<Aminstari8PartialHardLimitDeg1Clip>::verif_with_table(spec_table()), <Aminstari8PartialHardLimitDeg1Clip>::verif_with_table(spec_table()));
}
#[kani::proof]
#[kani::unwind(5)]
fn c10_scratch8__Aminstari8JonesPartialHardLimitDeg1Clip() {
    scratch8::<Aminstari8JonesPartialHardLimitDeg1Clip>(<Aminstari8JonesPartialHardLimitDeg1Clip>::verif_with_table(spec_table()), <Aminstari8JonesPartialHardLimitDeg1Clip>::verif_with_table(spec_table()));
}
