#!/bin/sh
# Build the framework from files on disk only (offline).
set -e
cd "$(dirname "$0")"
export CARGO_NET_OFFLINE=true
mkdir -p .work evidence replay/out
CARGO_TARGET_DIR="$PWD/.work/extract-target" cargo build --release --offline --manifest-path tools/extract/Cargo.toml
# warm the caches of the native replay crate and of the Kani harness crate (both are rebuilt
# against /repo's current tree by every check that needs them; failure here is not fatal)
python3 - <<'PY' || true
import sys
sys.path.insert(0, "lib")
import witness, kanirun
witness.build(print)
try:
    kanirun.prepare(print)
    kanirun.codegen(print)
except Exception as e:
    print("kani warm-up skipped:", e)
PY
echo "setup ok"
