// generic clauses (count, sign, magnitude bound, partial hard limiting) at higher check degrees, thorough tier
#[kani::proof]
#[kani::unwind(7)]
fn c04_check5__Minstarapproxi8() {
    check_rule::<Minstarapproxi8, 5>(<Minstarapproxi8>::verif_with_table(spec_table()), Family::MinStarApprox, false);
}
#[kani::proof]
#[kani::unwind(8)]
fn c04_check6__Minstarapproxi8() {
    check_rule::<Minstarapproxi8, 6>(<Minstarapproxi8>::verif_with_table(spec_table()), Family::MinStarApprox, false);
}
#[kani::proof]
#[kani::unwind(10)]
fn c04_check8__Minstarapproxi8() {
    check_rule::<Minstarapproxi8, 8>(<Minstarapproxi8>::verif_with_table(spec_table()), Family::MinStarApprox, false);
}
#[kani::proof]
#[kani::unwind(7)]
fn c04_check5__Minstarapproxi8Jones() {
    check_rule::<Minstarapproxi8Jones, 5>(<Minstarapproxi8Jones>::verif_with_table(spec_table()), Family::MinStarApprox, false);
}
#[kani::proof]
#[kani::unwind(8)]
fn c04_check6__Minstarapproxi8Jones() {
    check_rule::<Minstarapproxi8Jones, 6>(<Minstarapproxi8Jones>::verif_with_table(spec_table()), Family::MinStarApprox, false);
}
#[kani::proof]
#[kani::unwind(10)]
fn c04_check8__Minstarapproxi8Jones() {
    check_rule::<Minstarapproxi8Jones, 8>(<Minstarapproxi8Jones>::verif_with_table(spec_table()), Family::MinStarApprox, false);
}
#[kani::proof]
#[kani::unwind(7)]
fn c04_check5__Minstarapproxi8PartialHardLimit() {
    check_rule::<Minstarapproxi8PartialHardLimit, 5>(<Minstarapproxi8PartialHardLimit>::verif_with_table(spec_table()), Family::MinStarApprox, true);
}
#[kani::proof]
#[kani::unwind(8)]
fn c04_check6__Minstarapproxi8PartialHardLimit() {
    check_rule::<Minstarapproxi8PartialHardLimit, 6>(<Minstarapproxi8PartialHardLimit>::verif_with_table(spec_table()), Family::MinStarApprox, true);
}
#[kani::proof]
#[kani::unwind(10)]
fn c04_check8__Minstarapproxi8PartialHardLimit() {
    check_rule::<Minstarapproxi8PartialHardLimit, 8>(<Minstarapproxi8PartialHardLimit>::verif_with_table(spec_table()), Family::MinStarApprox, true);
}
#[kani::proof]
#[kani::unwind(7)]
fn c04_check5__Minstarapproxi8JonesPartialHardLimit() {
    check_rule::<Minstarapproxi8JonesPartialHardLimit, 5>(<Minstarapproxi8JonesPartialHardLimit>::verif_with_table(spec_table()), Family::MinStarApprox, true);
}
#[kani::proof]
#[kani::unwind(8)]
fn c04_check6__Minstarapproxi8JonesPartialHardLimit() {
    check_rule::<Minstarapproxi8JonesPartialHardLimit, 6>(<Minstarapproxi8JonesPartialHardLimit>::verif_with_table(spec_table()), Family::MinStarApprox, true);
}
#[kani::proof]
#[kani::unwind(10)]
fn c04_check8__Minstarapproxi8JonesPartialHardLimit() {
    check_rule::<Minstarapproxi8JonesPartialHardLimit, 8>(<Minstarapproxi8JonesPartialHardLimit>::verif_with_table(spec_table()), Family::MinStarApprox, true);
}
#[kani::proof]
#[kani::unwind(7)]
fn c04_check5__Minstarapproxi8Deg1Clip() {
    check_rule::<Minstarapproxi8Deg1Clip, 5>(<Minstarapproxi8Deg1Clip>::verif_with_table(spec_table()), Family::MinStarApprox, false);
}
#[kani::proof]
#[kani::unwind(8)]
fn c04_check6__Minstarapproxi8Deg1Clip() {
    check_rule::<Minstarapproxi8Deg1Clip, 6>(<Minstarapproxi8Deg1Clip>::verif_with_table(spec_table()), Family::MinStarApprox, false);
}
#[kani::proof]
#[kani::unwind(10)]
fn c04_check8__Minstarapproxi8Deg1Clip() {
    check_rule::<Minstarapproxi8Deg1Clip, 8>(<Minstarapproxi8Deg1Clip>::verif_with_table(spec_table()), Family::MinStarApprox, false);
}
#[kani::proof]
#[kani::unwind(7)]
fn c04_check5__Minstarapproxi8JonesDeg1Clip() {
    check_rule::<Minstarapproxi8JonesDeg1Clip, 5>(<Minstarapproxi8JonesDeg1Clip>::verif_with_table(spec_table()), Family::MinStarApprox, false);
}
#[kani::proof]
#[kani::unwind(8)]
fn c04_check6__Minstarapproxi8JonesDeg1Clip() {
    check_rule::<Minstarapproxi8JonesDeg1Clip, 6>(<Minstarapproxi8JonesDeg1Clip>::verif_with_table(spec_table()), Family::MinStarApprox, false);
}
#[kani::proof]
#[kani::unwind(10)]
fn c04_check8__Minstarapproxi8JonesDeg1Clip() {
    check_rule::<Minstarapproxi8JonesDeg1Clip, 8>(<Minstarapproxi8JonesDeg1Clip>::verif_with_table(spec_table()), Family::MinStarApprox, false);
}
#[kani::proof]
#[kani::unwind(7)]
fn c04_check5__Minstarapproxi8PartialHardLimitDeg1Clip() {
    check_rule::<Minstarapproxi8PartialHardLimitDeg1Clip, 5>(<Minstarapproxi8PartialHardLimitDeg1Clip>::verif_with_table(spec_table()), Family::MinStarApprox, true);
}
#[kani::proof]
#[kani::unwind(8)]
fn c04_check6__Minstarapproxi8PartialHardLimitDeg1Clip() {
    check_rule::<Minstarapproxi8PartialHardLimitDeg1Clip, 6>(<Minstarapproxi8PartialHardLimitDeg1Clip>::verif_with_table(spec_table()), Family::MinStarApprox, true);
}
#[kani::proof]
#[kani::unwind(10)]
fn c04_check8__Minstarapproxi8PartialHardLimitDeg1Clip() {
    check_rule::<Minstarapproxi8PartialHardLimitDeg1Clip, 8>(<Minstarapproxi8PartialHardLimitDeg1Clip>::verif_with_table(spec_table()), Family::MinStarApprox, true);
}
#[kani::proof]
#[kani::unwind(7)]
fn c04_check5__Minstarapproxi8JonesPartialHardLimitDeg1Clip() {
    check_rule::<Minstarapproxi8JonesPartialHardLimitDeg1Clip, 5>(<Minstarapproxi8JonesPartialHardLimitDeg1Clip>::verif_with_table(spec_table()), Family::MinStarApprox, true);
}
#[kani::proof]
#[kani::unwind(8)]
fn c04_check6__Minstarapproxi8JonesPartialHardLimitDeg1Clip() {
    check_rule::<Minstarapproxi8JonesPartialHardLimitDeg1Clip, 6>(<Minstarapproxi8JonesPartialHardLimitDeg1Clip>::verif_with_table(spec_table()), Family::MinStarApprox, true);
}
#[kani::proof]
#[kani::unwind(10)]
fn c04_check8__Minstarapproxi8JonesPartialHardLimitDeg1Clip() {
    check_rule::<Minstarapproxi8JonesPartialHardLimitDeg1Clip, 8>(<Minstarapproxi8JonesPartialHardLimitDeg1Clip>::verif_with_table(spec_table()), Family::MinStarApprox, true);
}
#[kani::proof]
#[kani::unwind(7)]
fn c04_check5__Aminstari8() {
    check_rule::<Aminstari8, 5>(<Aminstari8>::verif_with_table(spec_table()), Family::AMinStar, false);
}
#[kani::proof]
#[kani::unwind(8)]
fn c04_check6__Aminstari8() {
    check_rule::<Aminstari8, 6>(<Aminstari8>::verif_with_table(spec_table()), Family::AMinStar, false);
}
#[kani::proof]
#[kani::unwind(10)]
fn c04_check8__Aminstari8() {
    check_rule::<Aminstari8, 8>(<Aminstari8>::verif_with_table(spec_table()), Family::AMinStar, false);
}
#[kani::proof]
#[kani::unwind(7)]
fn c04_check5__Aminstari8Jones() {
    check_rule::<Aminstari8Jones, 5>(<Aminstari8Jones>::verif_with_table(spec_table()), Family::AMinStar, false);
}
#[kani::proof]
#[kani::unwind(8)]
fn c04_check6__Aminstari8Jones() {
    check_rule::<Aminstari8Jones, 6>(<Aminstari8Jones>::verif_with_table(spec_table()), Family::AMinStar, false);
}
#[kani::proof]
#[kani::unwind(10)]
fn c04_check8__Aminstari8Jones() {
    check_rule::<Aminstari8Jones, 8>(<Aminstari8Jones>::verif_with_table(spec_table()), Family::AMinStar, false);
}
#[kani::proof]
#[kani::unwind(7)]
fn c04_check5__Aminstari8PartialHardLimit() {
    check_rule::<Aminstari8PartialHardLimit, 5>(<Aminstari8PartialHardLimit>::verif_with_table(spec_table()), Family::AMinStar, true);
}
#[kani::proof]
#[kani::unwind(8)]
fn c04_check6__Aminstari8PartialHardLimit() {
    check_rule::<Aminstari8PartialHardLimit, 6>(<Aminstari8PartialHardLimit>::verif_with_table(spec_table()), Family::AMinStar, true);
}
#[kani::proof]
#[kani::unwind(10)]
fn c04_check8__Aminstari8PartialHardLimit() {
    check_rule::<Aminstari8PartialHardLimit, 8>(<Aminstari8PartialHardLimit>::verif_with_table(spec_table()), Family::AMinStar, true);
}
#[kani::proof]
#[kani::unwind(7)]
fn c04_check5__Aminstari8JonesPartialHardLimit() {
    check_rule::<Aminstari8JonesPartialHardLimit, 5>(<Aminstari8JonesPartialHardLimit>::verif_with_table(spec_table()), Family::AMinStar, true);
}
#[kani::proof]
#[kani::unwind(8)]
fn c04_check6__Aminstari8JonesPartialHardLimit() {
    check_rule::<Aminstari8JonesPartialHardLimit, 6>(<Aminstari8JonesPartialHardLimit>::verif_with_table(spec_table()), Family::AMinStar, true);
}
#[kani::proof]
#[kani::unwind(10)]
fn c04_check8__Aminstari8JonesPartialHardLimit() {
    check_rule::<Aminstari8JonesPartialHardLimit, 8>(<Aminstari8JonesPartialHardLimit>::verif_with_table(spec_table()), Family::AMinStar, true);
}
#[kani::proof]
#[kani::unwind(7)]
fn c04_check5__Aminstari8Deg1Clip() {
    check_rule::<Aminstari8Deg1Clip, 5>(<Aminstari8Deg1Clip>::verif_with_table(spec_table()), Family::AMinStar, false);
}
#[kani::proof]
#[kani::unwind(8)]
fn c04_check6__Aminstari8Deg1Clip() {
    check_rule::<Aminstari8Deg1Clip, 6>(<Aminstari8Deg1Clip>::verif_with_table(spec_table()), Family::AMinStar, false);
}
#[kani::proof]
#[kani::unwind(10)]
fn c04_check8__Aminstari8Deg1Clip() {
    check_rule::<Aminstari8Deg1Clip, 8>(<Aminstari8Deg1Clip>::verif_with_table(spec_table()), Family::AMinStar, false);
}
#[kani::proof]
#[kani::unwind(7)]
fn c04_check5__Aminstari8JonesDeg1Clip() {
    check_rule::<Aminstari8JonesDeg1Clip, 5>(<Aminstari8JonesDeg1Clip>::verif_with_table(spec_table()), Family::AMinStar, false);
}
#[kani::proof]
#[kani::unwind(8)]
fn c04_check6__Aminstari8JonesDeg1Clip() {
    check_rule::<Aminstari8JonesDeg1Clip, 6>(<Aminstari8JonesDeg1Clip>::verif_with_table(spec_table()), Family::AMinStar, false);
}
#[kani::proof]
#[kani::unwind(10)]
fn c04_check8__Aminstari8JonesDeg1Clip() {
    check_rule::<Aminstari8JonesDeg1Clip, 8>(<Aminstari8JonesDeg1Clip>::verif_with_table(spec_table()), Family::AMinStar, false);
}
#[kani::proof]
#[kani::unwind(7)]
fn c04_check5__Aminstari8PartialHardLimitDeg1Clip() {
    check_rule::<Aminstari8PartialHardLimitDeg1Clip, 5>(<Aminstari8PartialHardLimitDeg1Clip>::verif_with_table(spec_table()), Family::AMinStar, true);
}
#[kani::proof]
#[kani::unwind(8)]
fn c04_check6__Aminstari8PartialHardLimitDeg1Clip() {
    check_rule::<Aminstari8PartialHardLimitDeg1Clip, 6>(<Aminstari8PartialHardLimitDeg1Clip>::verif_with_table(spec_table()), Family::AMinStar, true);
}
#[kani::proof]
#[kani::unwind(10)]
fn c04_check8__Aminstari8PartialHardLimitDeg1Clip() {
    check_rule::<Aminstari8PartialHardLimitDeg1Clip, 8>(<Aminstari8PartialHardLimitDeg1Clip>::verif_with_table(spec_table()), Family::AMinStar, true);
}
#[kani::proof]
#[kani::unwind(7)]
fn c04_check5__Aminstari8JonesPartialHardLimitDeg1Clip() {
    check_rule::<Aminstari8JonesPartialHardLimitDeg1Clip, 5>(<Aminstari8JonesPartialHardLimitDeg1Clip>::verif_with_table(spec_table()), Family::AMinStar, true);
}
#[kani::proof]
#[kani::unwind(8)]
fn c04_check6__Aminstari8JonesPartialHardLimitDeg1Clip() {
    check_rule::<Aminstari8JonesPartialHardLimitDeg1Clip, 6>(<Aminstari8JonesPartialHardLimitDeg1Clip>::verif_with_table(spec_table()), Family::AMinStar, true);
}
#[kani::proof]
#[kani::unwind(10)]
fn c04_check8__Aminstari8JonesPartialHardLimitDeg1Clip() {
    check_rule::<Aminstari8JonesPartialHardLimitDeg1Clip, 8>(<Aminstari8JonesPartialHardLimitDeg1Clip>::verif_with_table(spec_table()), Family::AMinStar, true);
}
