"""Per-property configuration: which Verus units and Kani harnesses decide it."""

# Verus unit: unit name, template (relative to /verif/specs), rlimit, canary?
# `defines` select @ifdef sections of the template.

DVBS2_CODES = ["R1_4", "R1_3", "R2_5", "R1_2", "R3_5", "R2_3", "R3_4", "R4_5", "R5_6", "R8_9", "R9_10",
               "R1_4short", "R1_3short", "R2_5short", "R1_2short", "R3_5short", "R2_3short", "R3_4short",
               "R4_5short", "R5_6short", "R8_9short"]

FL_FRAMES = [{"file": "src/decoder/flooding.rs", "item": "impl Decoder::" + n, "name": n}
             for n in ["initialize", "process_check_nodes", "process_variable_nodes"]]
HL_FRAMES = [{"file": "src/decoder/horizontal_layered.rs", "item": "impl Decoder::" + n, "name": n}
             for n in ["initialize", "process_check_nodes"]]
DECODE_ASSUMPTIONS = [
    "check_llrs and hard_decisions trusted (external_body): existential contracts over the closure's ensures; parity_ok uninterpreted",
    "initialize / process_check_nodes / process_variable_nodes trusted (external_body); their frames are derived from the source's syntactic write sets",
    "DecoderArithmetic: llr_hard_decision and var_llr_to_llr are functions of (rules(), argument); rules() is preserved by the &mut methods",
    "f64 `x <= 0.0` is a function of x (axiom_f64_le_functional); floats are otherwise uninterpreted",
    "max_iterations < usize::MAX (RangeInclusive ghost iterator)",
]

PROPS = {
    "C17": {
        "level": "proof",
        "title": "Sparse-matrix editing behaves like a set of (row, column) positions",
        "verus": [
            {"unit": "sparse", "template": "sparse/unit.rs.in", "rlimit": 60, "canary": True},
        ],
        "kani": {"quick": [], "thorough": []},
        "witness": "sparse",
        "assumptions": [
            "vstd specs of Vec/slice/Option (push, len, index, clear, iter)",
            "assume_specification for <[T]>::contains and Vec::retain (over the closure's ensures)",
            "SparseMatrix::new trusted (iterator adaptors; postcondition: empty, right shape)",
            "usize is 64-bit",
        ],
    },
    "C06": {
        "level": "proof",
        "title": "DVB-S2 parity-check matrices conform to ETSI EN 302 307-1",
        "verus": [
            {"unit": "dvbs2_dims", "template": "dvbs2/unit_dims.rs.in", "rlimit": 60, "canary": True},
            {"unit": "dvbs2_h", "template": "dvbs2/unit_h.rs.in", "rlimit": 100, "canary": True},
        ] + [
            # one unit per code: the whole real `addresses()` body is verified, the
            # postcondition is asked for this code's arm only (shape, range, no repeats)
            {"unit": f"dvbs2_addr_{c}", "template": "dvbs2/unit_addr.rs.in", "rlimit": 400, "threads": 1,
             "defines": ["RANGE", "NODUP"], "subst": {"CODE": c},
             "extra": ["--verify-function", "Code::addresses", "--verify-root"],
             "canary": c == "R8_9short"}
            for c in DVBS2_CODES
        ],
        "kani": {"quick": [], "thorough": []},
        "witness": "c06",
        "assumptions": [
            "the standard's tables (n, k, q, degree profile) as transcribed in specs/dvbs2/std.rs.in",
            "SparseMatrix::new and SparseMatrix::insert_col trusted (external_body) with the contracts of specs/sparse",
            "Borrow<usize> for usize is the identity (axiom_bval_usize)",
            "Code::addresses() returns the same table on every call (uninterpreted addr_table); its shape/range/no-repeat facts are proved per code",
            "usize is 64-bit",
        ],
    },
    "C07": {
        "level": "proof",
        "title": "CCSDS AR4JA parity-check matrices conform to CCSDS 131.0-B",
        "verus": [
            {"unit": "ccsds", "template": "ccsds/unit.rs.in", "rlimit": 100, "canary": True, "timeout": 1200},
        ],
        "kani": {"quick": [], "thorough": []},
        "witness": "c07",
        "assumptions": [
            "Blue Book Table 7-2 (M) and theta_k as transcribed in specs/ccsds/unit.rs.in",
            "phi_k(j, M) pinned to the tree the check was written against (specs/ccsds/phi_pinned.rs.in), not independently transcribed",
            "SparseMatrix::new trusted (external_body)",
            "usize is 64-bit",
        ],
    },
    "C01": {
        "level": "proof",
        "title": "A decoder never reports success on a word that is not a codeword",
        "verus": [
            {"unit": "flooding_c01", "template": "decode/flooding.rs.in", "defines": ["C01"], "rlimit": 100, "canary": True,
             "frames": FL_FRAMES},
            {"unit": "hl_c01", "template": "decode/hl.rs.in", "defines": ["C01"], "rlimit": 100, "canary": True,
             "frames": HL_FRAMES},
        ],
        "kani": {"quick": [], "thorough": []},
        "witness": "c01",
        "assumptions": DECODE_ASSUMPTIONS,
    },
    "C10": {
        "level": "proof",
        "title": "A decoder object carries no state from one frame to the next",
        "verus": [
            {"unit": "flooding_c10", "template": "decode/flooding.rs.in", "defines": ["C10"], "rlimit": 100, "canary": True,
             "frames": FL_FRAMES},
            {"unit": "hl_c10", "template": "decode/hl.rs.in", "defines": ["C10"], "rlimit": 100, "canary": True,
             "frames": HL_FRAMES},
        ],
        "kani": {"quick": [], "thorough": []},
        "witness": "c10",
        "assumptions": DECODE_ASSUMPTIONS + [
            "functional claims of the trusted callees: every buffer a callee can write (syntactic write set, derived from the source on each run) is completely rewritten from the named inputs",
        ],
    },
}
