#![feature(allocator_api)]
use vstd::prelude::*;
verus! {

pub assume_specification<T: PartialEq>[ <[T]>::contains ](s: &[T], x: &T) -> (b: bool)
    ensures b == s@.contains(*x);

pub assume_specification<T, A: core::alloc::Allocator, F: FnMut(&T) -> bool>[ Vec::<T, A>::retain ](v: &mut Vec<T, A>, f: F)
    ensures true;

pub struct SparseMatrix {
    rows: Vec<Vec<usize>>,
    cols: Vec<Vec<usize>>,
}

impl SparseMatrix {
    pub closed spec fn nrows(&self) -> int { self.rows.len() as int }
    pub closed spec fn ncols(&self) -> int { self.cols.len() as int }

    pub fn remove(&mut self, row: usize, col: usize)
        requires col < old(self).ncols(), row < old(self).nrows()
    {
        self.rows[row].retain(|c: &usize| *c != col);
        self.cols[col].retain(|r: &usize| *r != row);
    }

    pub fn clear_row(&mut self, row: usize)
        requires row < old(self).nrows()
    {
        for col in &self.rows[row] {
            self.cols[*col].retain(|r| *r != row);
        }
        self.rows[row].clear();
    }
    pub fn toggle(&mut self, row: usize, col: usize) {
        match self.contains(row, col) {
            true => self.remove(row, col),
            false => self.insert(row, col),
        }
    }
    #[verifier::external_body]
    pub fn contains(&self, row: usize, col: usize) -> (b: bool) { unimplemented!() }
    #[verifier::external_body]
    pub fn insert(&mut self, row: usize, col: usize) { unimplemented!() }
}

} // verus!
fn main() {}
