#![feature(allocator_api)]
use vstd::prelude::*;
verus! {

pub assume_specification<T, A: core::alloc::Allocator, F: FnMut(&T) -> bool>[ Vec::<T, A>::retain ](v: &mut Vec<T, A>, f: F)
    requires forall|x: &T| #[trigger] f.requires((x,)),
    ensures
        exists|keep: spec_fn(T) -> bool| (forall|x: T| f.ensures((&x,), #[trigger] keep(x))) && final(v)@ == old(v)@.filter(keep);

pub struct SparseMatrix {
    rows: Vec<Vec<usize>>,
    cols: Vec<Vec<usize>>,
}

impl SparseMatrix {
    pub closed spec fn inrange(&self) -> bool {
        &&& forall|r: int, i: int| 0 <= r < self.rows.len() && 0 <= i < self.rows[r].len() ==> (#[trigger] self.rows[r][i]) < self.cols.len()
    }

    fn clear_row(&mut self, row: usize)
        requires row < old(self).rows.len(), old(self).inrange(),
        ensures final(self).rows.len() == old(self).rows.len(), final(self).cols.len() == old(self).cols.len(),
            final(self).rows[row as int]@.len() == 0,
            forall|c: int| 0 <= c < old(self).cols.len() ==> #[trigger] final(self).cols[c]@ == old(self).cols[c]@.filter(|r: usize| r != row) || final(self).cols[c]@ == old(self).cols[c]@,
    {
        let ghost orig = *self;
        for col__r in it: &self.rows[row]
            invariant
                row < self.rows.len(), self.rows == orig.rows, self.cols.len() == orig.cols.len(),
                orig.inrange(),
                forall|c: int| 0 <= c < orig.cols.len() ==> #[trigger] self.cols[c]@ == orig.cols[c]@.filter(|r: usize| r != row) || self.cols[c]@ == orig.cols[c]@,
        {
            let col = *col__r;
            self.cols[col].retain(|r: &usize| -> (b: bool) ensures b == (*r != row) { *r != row });
        }
        self.rows[row].clear();
    }
}

} // verus!
fn main() {}
