//! C04 / C10 for the eight float arithmetics.
//!
//! (A-Min* float: only the message count is checked.  Its magnitude is min(x,y) - ln(1+e^-|x-y|) +
//! ln(1+e^-(x+y)), non-negative by a real-analysis identity that interval axioms on ln_1p cannot
//! carry; with them the sign clause fails spuriously, so it is not asserted.)
//!
//! C04 (axiomatised transcendental functions: a property proved under these axioms holds for the
//! real libm): exactly one message per neighbour and the sign rule, degrees 2 and 3, every finite
//! input up to 1e30; magnitude bound for the min*-approximation.
//!
//! C10 scratch buffers (deterministic SURROGATE functions in place of tanh / ln / exp / ln_1p /
//! atanh - under abstraction, not a proof): a rule called on a used arithmetic object (after a
//! call with a larger degree) sends exactly what a fresh object sends.
use ldpc_toolbox::decoder::arithmetic::*;
use ldpc_toolbox::decoder::{Message, SentMessage};

// ---- axiomatic stubs -----------------------------------------------------------------------
pub fn ax_tanh64(x: f64) -> f64 {
    let r: f64 = kani::any();
    kani::assume(r >= -1.0 && r <= 1.0);
    kani::assume((x > 0.0) == (r > 0.0) && (x < 0.0) == (r < 0.0));
    // tanh(t) >= t/2 for 0 <= t <= 1, so tanh(0.5e-30) is a positive normal number
    if x >= 5e-31 {
        kani::assume(r >= 2e-31);
    }
    r
}
pub fn ax_tanh32(x: f32) -> f32 {
    let r: f32 = kani::any();
    kani::assume(r >= -1.0 && r <= 1.0);
    kani::assume((x > 0.0) == (r > 0.0) && (x < 0.0) == (r < 0.0));
    if x >= 5e-31 {
        kani::assume(r >= 2e-31);
    }
    r
}
pub fn ax_ln64(x: f64) -> f64 {
    // only ever called on tanh values in [2e-31, 1]
    let r: f64 = kani::any();
    kani::assume(r <= 0.0 && r >= -71.0);
    if x >= 1.0 {
        kani::assume(r == 0.0);
    }
    r
}
pub fn ax_ln32(x: f32) -> f32 {
    let r: f32 = kani::any();
    kani::assume(r <= 0.0 && r >= -71.0);
    if x >= 1.0 {
        kani::assume(r == 0.0);
    }
    r
}
pub fn ax_atanh64(x: f64) -> f64 {
    let r: f64 = kani::any();
    kani::assume((x > 0.0) == (r > 0.0) && (x < 0.0) == (r < 0.0) && r.abs() <= 40.0);
    r
}
pub fn ax_atanh32(x: f32) -> f32 {
    let r: f32 = kani::any();
    kani::assume((x > 0.0) == (r > 0.0) && (x < 0.0) == (r < 0.0) && r.abs() <= 40.0);
    r
}
pub fn ax_exp64(x: f64) -> f64 {
    let r: f64 = kani::any();
    kani::assume(r >= 0.0 && (x > 0.0 || r <= 1.0) && r <= 1e30);
    r
}
pub fn ax_exp32(x: f32) -> f32 {
    let r: f32 = kani::any();
    kani::assume(r >= 0.0 && (x > 0.0 || r <= 1.0) && r <= 1e30);
    r
}
pub fn ax_ln1p64(x: f64) -> f64 {
    // ln(1+y) for y in [0,1] lies in [0, ln 2] and is at most y
    let r: f64 = kani::any();
    kani::assume(r >= 0.0 && r <= 0.6931471805599453);
    r
}
pub fn ax_ln1p32(x: f32) -> f32 {
    let r: f32 = kani::any();
    kani::assume(r >= 0.0 && r <= 0.6931472);
    r
}

// ---- C04: count and sign, generic over the float type ---------------------------------------
macro_rules! float_rule {
    ($name:ident, $ty:ident, $f:ty, $d:expr, $minbound:expr, $signrule:expr) => {
        #[kani::proof]
        #[kani::unwind(6)]
        #[kani::stub(f64::tanh, ax_tanh64)]
        #[kani::stub(f32::tanh, ax_tanh32)]
        #[kani::stub(f64::ln, ax_ln64)]
        #[kani::stub(f32::ln, ax_ln32)]
        #[kani::stub(f64::atanh, ax_atanh64)]
        #[kani::stub(f32::atanh, ax_atanh32)]
        #[kani::stub(f64::exp, ax_exp64)]
        #[kani::stub(f32::exp, ax_exp32)]
        #[kani::stub(f64::ln_1p, ax_ln1p64)]
        #[kani::stub(f32::ln_1p, ax_ln1p32)]
        fn $name() {
            const D: usize = $d;
            let mut a = <$ty>::new();
            let mut v = [0.0 as $f; D];
            let mut msgs = [Message { source: 0usize, value: 0.0 as $f }; D];
            for k in 0..D {
                let x: $f = kani::any();
                kani::assume(x.abs() <= 1e30);
                v[k] = x;
                msgs[k] = Message { source: 1000 + k, value: x };
            }
            let mut out = [0.0 as $f; D];
            let mut seen = [0u8; D];
            let mut count = 0usize;
            let mut bad = false;
            a.send_check_messages(&msgs, |m: SentMessage<$f>| {
                count += 1;
                if m.dest >= 1000 && m.dest < 1000 + D {
                    out[m.dest - 1000] = m.value;
                    seen[m.dest - 1000] += 1;
                } else {
                    bad = true;
                }
            });
            assert!(count == D && !bad);
            for k in 0..D {
                assert!(seen[k] == 1);
                let mut neg = false;
                let mut minoth = f64::INFINITY;
                for j in 0..D {
                    if j != k {
                        if v[j] < 0.0 {
                            neg = !neg;
                        }
                        if (v[j].abs() as f64) < minoth {
                            minoth = v[j].abs() as f64;
                        }
                    }
                }
                assert!(!out[k].is_nan());
                if $signrule {
                    if out[k] > 0.0 {
                        assert!(!neg);
                    }
                    if out[k] < 0.0 {
                        assert!(neg);
                    }
                }
                if $minbound {
                    assert!((out[k].abs() as f64) <= minoth);
                }
            }
            kani::cover!(out[0] > 0.0);
            kani::cover!(out[0] < 0.0);
        }
    };
}

float_rule!(c04f_check2__Phif64, Phif64, f64, 2, false, true);
float_rule!(c04f_check3__Phif64, Phif64, f64, 3, false, true);
float_rule!(c04f_check2__Phif32, Phif32, f32, 2, false, true);
float_rule!(c04f_check3__Phif32, Phif32, f32, 3, false, true);
float_rule!(c04f_check2__Tanhf64, Tanhf64, f64, 2, false, true);
float_rule!(c04f_check3__Tanhf64, Tanhf64, f64, 3, false, true);
float_rule!(c04f_check2__Tanhf32, Tanhf32, f32, 2, false, true);
float_rule!(c04f_check3__Tanhf32, Tanhf32, f32, 3, false, true);
float_rule!(c04f_check2__Minstarapproxf64, Minstarapproxf64, f64, 2, true, true);
float_rule!(c04f_check3__Minstarapproxf64, Minstarapproxf64, f64, 3, true, true);
float_rule!(c04f_check2__Minstarapproxf32, Minstarapproxf32, f32, 2, true, true);
float_rule!(c04f_check3__Minstarapproxf32, Minstarapproxf32, f32, 3, true, true);
float_rule!(c04f_check2__Aminstarf64, Aminstarf64, f64, 2, false, false);
float_rule!(c04f_check3__Aminstarf64, Aminstarf64, f64, 3, false, false);
float_rule!(c04f_check2__Aminstarf32, Aminstarf32, f32, 2, false, false);
float_rule!(c04f_check3__Aminstarf32, Aminstarf32, f32, 3, false, false);

// ---- C10: scratch buffers, deterministic surrogates -------------------------------------------
pub fn s_tanh64(x: f64) -> f64 {
    if x > 1.0 { 1.0 } else if x < -1.0 { -1.0 } else { x }
}
pub fn s_tanh32(x: f32) -> f32 {
    if x > 1.0 { 1.0 } else if x < -1.0 { -1.0 } else { x }
}
pub fn s_ln64(x: f64) -> f64 {
    x - 1.0
}
pub fn s_ln32(x: f32) -> f32 {
    x - 1.0
}
pub fn s_id64(x: f64) -> f64 {
    x
}
pub fn s_id32(x: f32) -> f32 {
    x
}
pub fn s_exp64(x: f64) -> f64 {
    if x <= -1.0 { 0.0 } else if x >= 0.0 { 1.0 } else { 1.0 + x }
}
pub fn s_exp32(x: f32) -> f32 {
    if x <= -1.0 { 0.0 } else if x >= 0.0 { 1.0 } else { 1.0 + x }
}
pub fn s_half64(x: f64) -> f64 {
    0.5 * x
}
pub fn s_half32(x: f32) -> f32 {
    0.5 * x
}

fn bits_eq64(a: f64, b: f64) -> bool {
    a.to_bits() == b.to_bits()
}

macro_rules! scratch_float {
    ($name:ident, $lname:ident, $ty:ident, $f:ty) => {
        /// flooding check rule: degree 3 call, then degree 2 call on the same object == fresh object
        #[kani::proof]
        #[kani::unwind(6)]
        #[kani::stub(f64::tanh, s_tanh64)]
        #[kani::stub(f32::tanh, s_tanh32)]
        #[kani::stub(f64::ln, s_ln64)]
        #[kani::stub(f32::ln, s_ln32)]
        #[kani::stub(f64::atanh, s_id64)]
        #[kani::stub(f32::atanh, s_id32)]
        #[kani::stub(f64::exp, s_exp64)]
        #[kani::stub(f32::exp, s_exp32)]
        #[kani::stub(f64::ln_1p, s_half64)]
        #[kani::stub(f32::ln_1p, s_half32)]
        fn $name() {
            let mut used = <$ty>::new();
            let mut fresh = <$ty>::new();
            let mut a = [Message { source: 0usize, value: 0.0 as $f }; 3];
            for k in 0..3 {
                let x: $f = kani::any();
                kani::assume(x.abs() <= 100.0);
                a[k] = Message { source: k, value: x };
            }
            let mut b = [Message { source: 0usize, value: 0.0 as $f }; 2];
            for k in 0..2 {
                let x: $f = kani::any();
                kani::assume(x.abs() <= 100.0);
                b[k] = Message { source: k, value: x };
            }
            used.send_check_messages(&a, |_m| {});
            let mut o1 = [0.0 as $f; 2];
            let mut o2 = [0.0 as $f; 2];
            used.send_check_messages(&b, |m: SentMessage<$f>| {
                if m.dest < 2 {
                    o1[m.dest] = m.value;
                }
            });
            fresh.send_check_messages(&b, |m: SentMessage<$f>| {
                if m.dest < 2 {
                    o2[m.dest] = m.value;
                }
            });
            for k in 0..2 {
                assert!(o1[k].to_bits() == o2[k].to_bits());
            }
            kani::cover!(o2[0] != 0.0);
        }

        /// layered update: degree 3 call, then degree 2 call on the same object == fresh object
        #[kani::proof]
        #[kani::unwind(6)]
        #[kani::stub(f64::tanh, s_tanh64)]
        #[kani::stub(f32::tanh, s_tanh32)]
        #[kani::stub(f64::ln, s_ln64)]
        #[kani::stub(f32::ln, s_ln32)]
        #[kani::stub(f64::atanh, s_id64)]
        #[kani::stub(f32::atanh, s_id32)]
        #[kani::stub(f64::exp, s_exp64)]
        #[kani::stub(f32::exp, s_exp32)]
        #[kani::stub(f64::ln_1p, s_half64)]
        #[kani::stub(f32::ln_1p, s_half32)]
        fn $lname() {
            let mut used = <$ty>::new();
            let mut fresh = <$ty>::new();
            let mut m3 = [SentMessage { dest: 0usize, value: 0.0 as $f }; 3];
            let mut v3 = [0.0 as $f; 3];
            for k in 0..3 {
                let x: $f = kani::any();
                let y: $f = kani::any();
                kani::assume(x.abs() <= 100.0 && y.abs() <= 100.0);
                m3[k] = SentMessage { dest: k, value: x };
                v3[k] = y;
            }
            used.update_check_messages_and_vars(&mut m3, &mut v3);
            let mut ma = [SentMessage { dest: 0usize, value: 0.0 as $f }; 2];
            let mut va = [0.0 as $f; 2];
            for k in 0..2 {
                let x: $f = kani::any();
                let y: $f = kani::any();
                kani::assume(x.abs() <= 100.0 && y.abs() <= 100.0);
                ma[k] = SentMessage { dest: k, value: x };
                va[k] = y;
            }
            let mut mb = ma;
            let mut vb = va;
            used.update_check_messages_and_vars(&mut ma, &mut va);
            fresh.update_check_messages_and_vars(&mut mb, &mut vb);
            for k in 0..2 {
                assert!(ma[k].value.to_bits() == mb[k].value.to_bits());
                assert!(va[k].to_bits() == vb[k].to_bits());
            }
            kani::cover!(vb[0] != 0.0);
        }
    };
}

// Phif64 / Phif32: the scratch harnesses did not finish in 25 min (equivalence of float adder chains); not registered.
scratch_float!(c10_scratch__Tanhf64, c10_scratch_layered__Tanhf64, Tanhf64, f64);
scratch_float!(c10_scratch__Tanhf32, c10_scratch_layered__Tanhf32, Tanhf32, f32);
scratch_float!(c10_scratch__Minstarapproxf64, c10_scratch_layered__Minstarapproxf64, Minstarapproxf64, f64);
scratch_float!(c10_scratch__Minstarapproxf32, c10_scratch_layered__Minstarapproxf32, Minstarapproxf32, f32);
scratch_float!(c10_scratch__Aminstarf64, c10_scratch_layered__Aminstarf64, Aminstarf64, f64);
scratch_float!(c10_scratch__Aminstarf32, c10_scratch_layered__Aminstarf32, Aminstarf32, f32);

// ---- C05 for the float arithmetics: the variable rule is the plain sum, degrees 1..=3 ----------
// new LLR = channel LLR + all incoming messages (summed left to right from 0), message to check i
// = new LLR - message i; exactly n sends, in order.  BOUNDED to degree 3.
macro_rules! float_var {
    ($name:ident, $ty:ident, $f:ty) => {
        #[kani::proof]
        #[kani::unwind(6)]
        fn $name() {
            let mut a = <$ty>::new();
            let n: usize = kani::any();
            kani::assume(n >= 1 && n <= 3);
            let input: $f = kani::any();
            kani::assume(input.abs() <= 1e30);
            let mut msgs = [Message { source: 0usize, value: 0.0 as $f }; 3];
            for k in 0..3 {
                let x: $f = kani::any();
                kani::assume(x.abs() <= 1e30);
                msgs[k] = Message { source: 1000 + k, value: x };
            }
            let mut out = [SentMessage { dest: 0usize, value: 0.0 as $f }; 3];
            let mut count = 0usize;
            let ret = a.send_var_messages(input, &msgs[..n], |m| {
                if count < 3 {
                    out[count] = m;
                }
                count += 1;
            });
            let mut sum: $f = 0.0;
            for k in 0..3 {
                if k < n {
                    sum = sum + msgs[k].value;
                }
            }
            let llr = input + sum;
            assert!(count == n);
            assert!(ret == llr);
            for k in 0..3 {
                if k < n {
                    assert!(out[k].dest == 1000 + k);
                    assert!(out[k].value == llr - msgs[k].value);
                }
            }
            kani::cover!(n == 3);
            kani::cover!(n == 1);
        }
    };
}
float_var!(c05f_var__Phif64, Phif64, f64);
float_var!(c05f_var__Phif32, Phif32, f32);
float_var!(c05f_var__Tanhf64, Tanhf64, f64);
float_var!(c05f_var__Tanhf32, Tanhf32, f32);
float_var!(c05f_var__Minstarapproxf64, Minstarapproxf64, f64);
float_var!(c05f_var__Minstarapproxf32, Minstarapproxf32, f32);
float_var!(c05f_var__Aminstarf64, Aminstarf64, f64);
float_var!(c05f_var__Aminstarf32, Aminstarf32, f32);

include!(concat!(env!("VERIF_KANI_GEN"), "/playback_c04f.rs"));
