HOOKS = {
    "guard": "cargo feature verif-hooks",
    "enable": "the Kani harness crate /verif/kani depends on ldpc-toolbox by path with features=[\"verif-hooks\"]; Verus units need no hook",
    "baseline_off_cmd": "cd /repo && cargo test --workspace --no-fail-fast --offline",
    "source_commits": ["6155b19", "8e03229", "6ff9772", "2661706"],
    "add_only": True,
}
ENGINES = [
    {"name": "kani", "path": "/verif/lib/kanirun.py", "serves_properties": ["C01", "C03", "C04", "C05", "C10", "C14", "C15", "C17", "C18"],
     "kind_free_text": "Kani 0.68 / CBMC 6.11 on the compiled real crate (/verif/kani, path dependency on /repo with feature verif-hooks); one process per harness, memory-budgeted; failing harnesses are replayed natively through Kani's concrete playback"},
    {"name": "verus", "path": "/verif/lib/verusrun.py", "serves_properties": ["C17", "C06", "C07", "C01", "C10"],
     "kind_free_text": "Verus 0.2026.09.13 (z3) on text extracted from /repo/src on every run by /verif/tools/extract (syn AST anchors, byte-copied bodies)"},
]
NOTES = ("Contract-based deductive verification. exit 0 = all obligations discharged; exit 1 = VIOLATION; "
         "exit 2 = undecided (lost anchor, unsupported construct, resource limit) and never an alarm. See DESIGN.md.")
CHECKS = {
    "C17": {
        "engine": "verus",
        "design_ref": "DESIGN.md section 5, C17",
        "technique": "Verus function contracts + representation invariant on the extracted real text of src/sparse.rs; bounded Kani scenarios for the functions Verus cannot ingest",
        "text": "Unbounded proof, for all matrices and all arguments, that each verified SparseMatrix operation keeps the representation invariant (row/column mirror, indices in range, no duplicates) and changes the whole set view exactly as the corresponding set operation; idempotence clauses included.",
        "note": "Trusted: Verus/z3, the extractor's splices and normalisations N1/N5 on `remove`, vstd Vec/slice specs, assume_specification for <[T]>::contains and Vec::retain, SparseMatrix::new (external_body). Functions not under contract are listed in the evidence.",
    },
}
CHECKS["C06"] = {
    "engine": "verus",
    "design_ref": "DESIGN.md section 5, C06",
    "technique": "Verus function contracts on the extracted real text of src/codes/dvbs2.rs against spec tables written from EN 302 307-1",
    "text": "Unbounded (all 21 codes, symbolically) proof that n, n-k, k and q returned by the real functions equal Tables 5a/5b/7a/7b; that every address table has the standard's group count and degree profile, entries below n-k, no repeated entry in a row, and the pinned contents; and that h() never panics and returns exactly the matrix whose information part is {(x + w q) mod (n-k)} per 360-column group and whose parity part is the dual diagonal (quasi-cyclic shift law and column degrees as lemmas).",
    "note": "Trusted: Verus/z3, the extractor, the standard's tables (n, k, q, degree profile) as transcribed in specs/dvbs2/std.rs.in, SparseMatrix::new (external_body); insert_col by the contract verified in the C17 unit. The address tables are pinned to the tree the check was written against. Not decided: 4-cycle freedom, girth, encoder acceptance.",
}
CHECKS["C07"] = {
    "engine": "verus",
    "design_ref": "DESIGN.md section 5, C07",
    "technique": "Verus function contracts and loop invariants on the extracted real text of src/codes/ccsds.rs (AR4JA and C2) against the Blue Book formulas and tables",
    "text": "Unbounded proof over all nine AR4JA codes (symbolic rate and size) that M follows Table 7-2, pi_k(i) equals the Blue Book formula and stays below M, theta/phi tables equal the pinned tables, and h() never panics or overflows and returns a well-formed 3M x (k+3M) matrix that equals the Blue Book block matrix entry by entry; and that the C2 matrix is 1022 x 8176, equals the 2 x 16 array of weight-2 511 x 511 circulants of Table 7-1 entry by entry, with row weight 32 and column weight 4.",
    "note": "Trusted: Verus/z3, the extractor (N3 on the two statics), SparseMatrix::new. Not decided: rank (AR4JA full row rank, C2 rank 1020), invertibility of the last 3M columns, girth; phi_k is pinned to the tree rather than independently transcribed.",
}
CHECKS["C01"] = {
    "engine": "verus",
    "design_ref": "DESIGN.md section 5, C01",
    "technique": "Verus contract on the extracted real text of both decode() functions, generic in the arithmetic (one proof covers all 36 instantiations); bounded Kani cross-check of the whole real 8-bit decoders",
    "text": "Unbounded proof, for every arithmetic implementing the trait, every matrix, every LLR vector and every limit below usize::MAX, that decode() of both schedules returns results satisfying the verdict / word / iteration-count relation of the property, relative to the trusted contracts of its callees.",
    "note": "Trusted: check_llrs, hard_decisions, initialize, process_* (external_body; frames derived from the source's syntactic write sets), purity of llr_hard_decision/var_llr_to_llr, one f64 axiom, parity_ok uninterpreted. The trusted contracts are cross-checked on the real 8-bit decoders (both families, both schedules) by bounded Kani harnesses on a 2x3 / 3x4 matrix for all f64 LLRs (see evidence for each bound).",
}
CHECKS["C10"] = {
    "engine": "verus",
    "design_ref": "DESIGN.md section 5, C10",
    "technique": "Verus contract: decode() result equals a recursive spec function of (rules, H, LLRs, limit) in which old(self)'s buffers do not occur; callee frames derived from syntactic write sets; bounded Kani two-call histories and scratch-buffer harnesses",
    "text": "Unbounded proof that decode() of both schedules reads no buffer that has not been rewritten since entry, so each call returns what a fresh decoder returns; state-independence per call gives every finite history.",
    "note": "Trusted: the functional claims of initialize/process_* (each buffer in a callee's write set is completely rewritten from the named inputs), scratch state inside arithmetic objects abstracted by rules(); staleness inside the trusted callees or inside an arithmetic's scratch buffers is visible only to the bounded Kani harnesses.",
}
CHECKS["C05"] = {
    "engine": "kani",
    "design_ref": "DESIGN.md section 5, C05",
    "technique": "Kani symbolic harnesses stating the postcondition of the public trait methods of each 8-bit arithmetic (contract of new() proved separately and reused through a guarded constructor hook)",
    "text": "For each of the sixteen 8-bit arithmetics, complete over the stated domains: the quantiser for every f64 bit pattern (no panic, [-127,127], round-half-away(8x) saturated); clip for every i16; the variable rule (exactly n sends in order, saturating sums, Jones and degree-one clipping per the name, never -128, Kani's overflow checks on) for every message vector of every degree 1..8 in the quick tier and 1..200 in the thorough tier; layered update == flooding check rule on the extrinsics plus the new message at check degrees 2 and 3 inside |variable LLR| <= 508.",
    "note": "Trusted: Kani/CBMC/CaDiCaL. The float arithmetics' variable rule is covered at degrees 1..3 only (thorough tier, bounded); the property's degree range 1..200 is covered up to 100 for the four shapes of the shared 8-bit macro body and up to 32 for all sixteen types (1..200 did not finish). Layered/flooding consistency is bounded to check degrees 2 and 3 (labelled bounded in the evidence). The quick tier's degree bound 8 is a bounded stand-in for the thorough tier's complete 1..200.",
}
CHECKS["C04"] = {
    "engine": "kani",
    "design_ref": "DESIGN.md section 5, C04",
    "technique": "Kani symbolic harnesses over every 8-bit message vector at check degrees 2 and 3 against checker-side recurrences over the documented correction table",
    "text": "Sixteen 8-bit arithmetics, every vector in [-127,127]^d for d = 2, 3 (the domain the property calls exhaustive; d = 4 generic clauses in the thorough tier): one message per neighbour, sign = product of the other signs when non-zero, magnitude <= min other magnitude except documented partial hard limiting (>= 100 -> 127), exact equality with the min*-approximation and A-Min* recurrences over the table, and new() builds the table round(8 ln(1+e^(-t/8))).",
    "note": "Category other: the float arithmetics (8 of 24 types), agreement with 2 atanh(prod tanh), the (d-2) ln 2 sandwich and degrees above 4 are not decided. libm values for the 128 table points come from the platform libm, computed natively each run.",
}
CHECKS["C18"] = {
    "engine": "kani",
    "design_ref": "DESIGN.md section 5, C18",
    "technique": "Kani harnesses, one per name and clause over the finite domain of 36 names, plus a symbolic-string harness for non-members",
    "text": "All 36 names: Display prints the name, FromStr and clap's ValueEnum parse it back to the same variant, clap offers it under exactly that string (and offers 36 values), and build_decoder returns the concrete type computed from the name (HL prefix -> horizontal_layered::Decoder, otherwise flooding::Decoder, over the arithmetic type of that name). Every ASCII string of up to 48 bytes that FromStr accepts equals the printed name of the result.",
    "note": "Quick tier: Display + FromStr and the clap value name for all 36 names, non-member strings, and the concrete decoder type for the 12 HL names plus one flooding name per arithmetic family (18 names); the thorough tier adds clap's own parser on every name and the type harness for all 36 names (the full set took 10-13 min and was stopped by the 900 s cap of vp check on a busy machine). Trusted: Kani/CBMC; the concrete type is observed through the guarded hook verif_type_name; 'behaves exactly like the generic decoder' is reduced to type identity (same monomorphised code); new() determinism assumed. clap's parser on non-member strings is not covered.",
}
CHECKS["C15"] = {
    "engine": "kani",
    "design_ref": "DESIGN.md section 5, C15",
    "technique": "bounded Kani harnesses with symbolic contents on the real ndarray-based functions",
    "text": "BOUNDED stand-in (never counted as proved): the stated permutation and inverse for small interleaver shapes (2 in the quick tier, 12 in the thorough tier, symbolic direction and contents), and keep/restore/rate/error behaviour for every puncturing pattern of length <= 4 with block sizes 1 and 2.",
    "note": "Bounds per harness are listed in the evidence. ndarray code is outside Verus, so no unbounded contract is in reach.",
}
CHECKS["C14"] = {
    "engine": "kani",
    "design_ref": "DESIGN.md section 5, C14",
    "technique": "Kani harnesses on the real modulators/demodulators: constellation facts complete over all 8 triples, BPSK sign structure over all samples and sigma",
    "text": "PARTIAL: constellation (DVB-S2 Gray mapping, unit energy), BPSK mapping and LLR sign structure, and noiseless hard decisions are decided; that the soft values equal the exact posterior log-ratio is NOT decided (floating-point equivalence did not finish in CBMC).",
    "note": "A change of the LLR scale factor or of an 8PSK soft-value partition that keeps the hard decisions at the eight noiseless points is not detected.",
}
CHECKS["C03"] = {
    "engine": "kani",
    "design_ref": "DESIGN.md section 5, C03",
    "technique": "bounded Kani harness: the real generic decoders instantiated with a checker-supplied exact min-sum arithmetic, against an executable textbook specification",
    "text": "BOUNDED stand-in (never counted as proved): result equality with the textbook flooding and layered schedules for all integer LLR vectors in [-7,7]^n on fixed 2x3 / 3x4 matrices, limit <= 2.",
    "note": "The exact-posterior clause (sum-product on forests) is not decided. Bounds listed per harness in the evidence.",
}
NOT_APPLICABLE = {
    "C02": "encoder: Array2<GF2> elimination, ndarray dot/concatenate and iter_all() are outside Verus; Kani cannot carry a symbolic SparseMatrix (measured blow-up); only GF(2) scalar laws are in reach and they do not decide the property",
    "C08": "alist text: fmt::Write, split, split_whitespace, parse - no str reasoning in Verus; in Kani the parser ends in SparseMatrix::new + insert, the measured blow-up",
    "C09": "systematic conversion: Array2<GF2> from a foreign crate cannot be linked into a single-file Verus run; Kani on all 2x3 matrices did not finish in 40 min",
    "C11": "girth/BFS: code is ingestible but exactness of BFS distances needs a multi-day queue-order invariant plus graph lemmas; Kani cannot afford a symbolic graph (3x3: >40 min)",
    "C12": "BER chain: statistical statement about noise; runs through ndarray, rand_distr and dyn objects inside worker threads",
    "C13": "BER statistics/termination: thread-schedule and liveness property; Kani has no threads, Verus would need the code rewritten around its permission types",
    "C16": "pseudorandom constructions: ChaCha, choose_multiple, rayon find_any, comparator closures; deciding logic would stay unverified",
    "C19": "C interface: raw pointers, CStr, files; bottoms out in the alist parser",
    "C20": "command line: the observable is a process's stdout and exit status",
}
